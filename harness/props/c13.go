package props

import (
	"bytes"
	"fmt"
	"strings"

	"verifharness/fw"
	"verifharness/refdec"
)

// C13 — The smallest symbol that fits is chosen.
type c13 struct{}

func init() { fw.Register(c13{}) }

func (c13) ID() string { return "C13" }
func (c13) Rule() string {
	return "contents with lengths swept across every capacity boundary from both sides (the boundary-directed case lists of C01/C02/C04: QR version x level x mode, 24 DataMatrix sizes, PDF417 codeword counts x levels) plus, for Aztec, automatically sized symbols of forced-length payloads around every layer boundary; oracle: QR version <= smallest version holding the content in the requested mode (Auto: densest single mode that can express it); DataMatrix size <= smallest square size for the content's ASCII encodation; Aztec (metamorphic, API only): every explicit request -4..-1, 1..32 whose dimension is smaller than the automatic result's must be refused; PDF417 trailing pads < columns, 2<=rows<=90, 1<=cols<=30, total <= 928; non-trivial = accepted, decoded and bounded, distinct by request"
}
func (c13) Assumptions() []string {
	return []string{
		"PDF417 row/column limits are the union of this implementation's (2..30 x 2..30) and ISO's (3..90 x 1..30) so that a legitimate extension is not alarmed",
		"the Aztec relation is checked on the API only: no assumption about which mode path the encoder takes",
	}
}

func (c13) Gen(tier string, seed int64) []fw.Unit {
	var us []fw.Unit
	take := func(src []fw.Unit, pred func(fw.Unit) bool) {
		for _, u := range src {
			if pred(u) {
				u.Fn = "min:" + u.Fn[indexColon(u.Fn)+1:]
				us = append(us, u)
			}
		}
	}
	take(c01{}.Gen(tier, seed+2000), func(u fw.Unit) bool {
		return u.Tag == "boundary" || u.Tag == "at-capacity" || u.Tag == "special" || (u.Tag == "random" && len(u.S) < 400)
	})
	take(c02{}.Gen(tier, seed+2000), func(u fw.Unit) bool { return true })
	plim := 250
	if tier == "thorough" {
		plim = 0
	}
	us = append(us, qrPairUnits(rngFor(seed, "C13pairs"), "qrpair:min", plim)...)
	take(c04{}.Gen(tier, seed+2000), func(u fw.Unit) bool {
		return u.Tag == "length-sweep" || u.Tag == "special" || u.Tag == "digits" || u.Tag == "bytes"
	})
	// Aztec: forced-length binary payloads around every layer boundary + text payloads
	r := rngFor(seed, "C13")
	nper := 2
	if tier == "thorough" {
		nper = 8
	}
	for l := 1; l <= 32; l++ {
		for _, comp := range []bool{true, false} {
			if comp && l > 4 {
				continue
			}
			total := refdec.AztecTotalBits(comp, l)
			for k := 0; k < nper; k++ {
				pct := pick(r, []int64{0, 10, 23, 33, 50})
				// payload bytes so that data+ecc lands near this size's capacity
				nb := int(float64(total) / (1 + float64(pct)/100) / 8)
				nb += r.Intn(9) - 6
				if nb < 1 {
					nb = 1
				}
				us = append(us, Req{Fam: "aztec", S: randBytes(r, nb, highAB), I: []int64{pct, 0}, Scheme: -1}.Unit("min", "aztec/binary-near-boundary"))
			}
		}
	}
	for _, q := range azBoundaryReqs(r, tier == "thorough", true) {
		us = append(us, q.Unit("min", "aztec/capacity-boundary"))
	}
	// exact fits: data bits + check bits fill a size exactly and nothing is stuffed
	for _, sz := range [][2]int{{1, 1}, {1, 2}, {1, 3}, {1, 4}, {0, 4}, {0, 5}, {0, 6}, {0, 8}, {0, 10}, {0, 13}, {0, 15}, {0, 18}, {0, 22}, {0, 23}, {0, 27}, {0, 32}} {
		T := refdec.AztecTotalBits(sz[0] == 1, sz[1])
		step := 1
		if tier != "thorough" {
			step = 7
		}
		for pct := int(seed % int64(step)); pct < 100; pct += step {
			guess := int(float64(T-11) / (5 * (1 + float64(pct)/100)))
			for n := guess - 2; n <= guess+2; n++ {
				if n >= 1 && 5*n+5*n*pct/100+11 == T {
					us = append(us, Req{Fam: "aztec", S: bytes.Repeat([]byte("A"), n), I: []int64{int64(pct), 0}, Scheme: -1}.Unit("min", "aztec/exact-fit"))
					us = append(us, Req{Fam: "aztec", S: randBytes(r, n, []byte("BCDEFGHIJKLMNOPQRSTUVWXY")), I: []int64{int64(pct), 0}, Scheme: -1}.Unit("min", "aztec/exact-fit"))
				}
			}
		}
	}
	nt := 60
	if tier == "thorough" {
		nt = 400
	}
	for i := 0; i < nt; i++ {
		n := 1 + r.Intn(120)
		if r.Intn(8) == 0 {
			n = 200 + r.Intn(900)
		}
		us = append(us, Req{Fam: "aztec", S: azWalk(r, n, 1+r.Intn(4)), I: []int64{pick(r, azPercents[:9]), 0}, Scheme: -1}.Unit("min", "aztec/text"))
	}
	return us
}

func (p c13) Exec(c *fw.Ctx, u *fw.Unit) {
	if u.Fn == "qrpair:min" {
		for _, q := range qrPairReqs(u) {
			p.one(c, q, u.Tag)
		}
		return
	}
	p.one(c, reqOfUnit(u), u.Tag)
}

func (p c13) one(c *fw.Ctx, req Req, tag string) {
	c.Eval()
	inner := req.String()
	switch req.Fam {
	case "qr":
		res, ok := qrObserve(c, req)
		if !ok {
			return
		}
		s := string(req.S)
		mode := 4
		switch req.int(1) {
		case 1:
			mode = 1
		case 2:
			mode = 2
		case 0:
			if allDigits(s) {
				mode = 1
			} else if strings.Trim(s, refQRAlnum) == "" {
				mode = 2
			}
		}
		want := refdec.QRMinVersion(mode, len(req.S), int(req.int(0)))
		if want == 0 {
			c.Violation("min/qr/accepted-beyond-capacity", fmt.Sprintf("content exceeds version 40 in mode %d but a version %d symbol was returned", mode, res.Version), inner, "")
			return
		}
		if res.Version > want {
			c.Violation("min/qr/version", fmt.Sprintf("version %d returned, version %d holds the content (mode %d, %d characters, level %d)", res.Version, want, mode, len(req.S), req.int(0)), inner, "")
			return
		}
		c.Cover("qr_version_at_bound", fmt.Sprint(res.Version == want))
		c.Cover("qr_layout", fmt.Sprintf("%d-%c", res.Version, "LMQH"[res.Level]))
		c.Cover("family", "qr")
	case "datamatrix":
		res, ok := dmObserve(c, req)
		if !ok {
			return
		}
		ncw := refdec.DMAsciiCodewords(req.S)
		want := refdec.DMSmallestSize(ncw)
		if want == 0 {
			c.Violation("min/dm/accepted-beyond-capacity", fmt.Sprintf("%d codewords exceed 1558 but a %dx%d symbol was returned", ncw, res.Size, res.Size), inner, "")
			return
		}
		if res.Size > want {
			c.Violation("min/dm/size", fmt.Sprintf("%dx%d returned, %dx%d holds the %d codewords", res.Size, res.Size, want, want, ncw), inner, "")
			return
		}
		c.CoverN("dm_size", res.Size)
		c.Cover("family", "datamatrix")
	case "pdf417":
		res, ok := pdfObserve(c, req)
		if !ok {
			return
		}
		if res.TrailingPads >= res.Cols {
			c.Violation("min/pdf/padding", fmt.Sprintf("%d trailing pad codewords in a symbol of %d columns (a full row of padding)", res.TrailingPads, res.Cols), inner, "")
			return
		}
		if res.Rows < 2 || res.Rows > 90 || res.Cols < 1 || res.Cols > 30 || res.Rows*res.Cols > 928 {
			c.Violation("min/pdf/limits", fmt.Sprintf("%d rows x %d columns is outside the row/column limits", res.Rows, res.Cols), inner, "")
			return
		}
		c.Cover("pdf_shape", fmt.Sprintf("%d,%d", res.Rows, res.Cols))
		c.CoverN("pdf_trailing_pads", res.TrailingPads)
		c.Cover("family", "pdf417")
	case "aztec":
		res, ok := aztecObserve(c, req)
		if !ok {
			return
		}
		dim := refdec.AztecSize(res.Compact, res.Layers)
		tried := 0
		for l := int64(-4); l <= 32; l++ {
			if l == 0 {
				continue
			}
			comp, L := l < 0, int(l)
			if comp {
				L = -L
			}
			if refdec.AztecSize(comp, L) >= dim {
				continue
			}
			er := req
			er.I = []int64{req.int(0), l}
			o := er.call()
			tried++
			if o.panic != nil {
				c.Violation("panic:aztec.Encode", fmt.Sprintf("panic: %v", o.panic), er.String(), o.stack)
				return
			}
			if o.err == nil {
				c.Violation("min/aztec/smaller-accepted", fmt.Sprintf("automatic sizing returned %d modules (compact=%v layers=%d) but the explicit request layers=%d (%d modules) is accepted for the same payload and percentage", dim, res.Compact, res.Layers, l, refdec.AztecSize(comp, L)), inner, "")
				return
			}
		}
		c.Extra("aztec_smaller_requests_refused", int64(tried))
		sz := fmt.Sprintf("F%02d", res.Layers)
		if res.Compact {
			sz = fmt.Sprintf("C%d", res.Layers)
		}
		c.Cover("aztec_auto_size", sz)
		c.Cover("family", "aztec")
	default:
		return
	}
	c.Nontrivial(req.Key())
	c.Cover("tag", tag)
	if c.Rand().Intn(80) == 0 {
		c.Sample(map[string]any{"request": req.String()})
	}
}

const refQRAlnum = "0123456789ABCDEFGHIJKLMNOPQRSTUVWXYZ $%*+-./:"
