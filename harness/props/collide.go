package props

import (
	"encoding/hex"
	"fmt"
	"hash/adler32"
	"hash/crc32"
	"hash/fnv"
	"math/rand"

	"verifharness/fw"
)

// Collision pairs: two different contents of equal length that collide under a
// well-known 32-bit hash function.  A cache or memo that is keyed by a hash of the
// content (instead of the content) returns the first symbol for the second content;
// encoding the pair back to back and decoding both shows it.

var hashFuncs = []struct {
	name string
	f    func([]byte) uint32
}{
	{"fnv1a32", func(b []byte) uint32 { h := fnv.New32a(); h.Write(b); return h.Sum32() }},
	{"fnv1-32", func(b []byte) uint32 { h := fnv.New32(); h.Write(b); return h.Sum32() }},
	{"crc32", crc32.ChecksumIEEE},
	{"crc32c", func(b []byte) uint32 { return crc32.Checksum(b, crc32.MakeTable(crc32.Castagnoli)) }},
	{"adler32", adler32.Checksum},
	{"djb2", func(b []byte) uint32 {
		h := uint32(5381)
		for _, c := range b {
			h = h*33 + uint32(c)
		}
		return h
	}},
	{"sdbm", func(b []byte) uint32 {
		h := uint32(0)
		for _, c := range b {
			h = uint32(c) + (h << 6) + (h << 16) - h
		}
		return h
	}},
	{"java31", func(b []byte) uint32 {
		h := uint32(0)
		for _, c := range b {
			h = 31*h + uint32(c)
		}
		return h
	}},
}

// collisionPairs finds, for every hash function, one pair of distinct strings of the
// given length over the alphabet with equal hash (birthday search, seed-determined).
func collisionPairs(r *rand.Rand, alphabet []byte, length int) [][2][]byte {
	var out [][2][]byte
	for _, hf := range hashFuncs {
		seen := make(map[uint32][]byte, 1<<17)
		for i := 0; i < 600000; i++ {
			s := randBytes(r, length, alphabet)
			h := hf.f(s)
			if o, ok := seen[h]; ok && string(o) != string(s) {
				out = append(out, [2][]byte{o, s})
				break
			}
			seen[h] = s
		}
	}
	return out
}

// collideUnits builds pair units "collide:<fam>" whose S is the concatenation of the
// two equal-length contents.
func collideUnits(r *rand.Rand, fn, fam string, alphabet []byte, length int, ints ...int64) []fw.Unit {
	var us []fw.Unit
	key := fmt.Sprintf("%s/%d", alphabetName(alphabet), length)
	for _, hp := range collideData[key] {
		a, _ := hex.DecodeString(hp[0])
		b, _ := hex.DecodeString(hp[1])
		p := [2][]byte{a, b}
		if r.Intn(2) == 0 {
			p[0], p[1] = p[1], p[0]
		}
		q := Req{Fam: fam, S: append(append([]byte{}, p[0]...), p[1]...), I: ints, Scheme: -1}
		u := q.Unit(fn, "hash-collision-pair")
		u.Fn = "collide:" + fam
		us = append(us, u)
	}
	return us
}

func isCollide(u *fw.Unit) bool { return len(u.Fn) > 8 && u.Fn[:8] == "collide:" }

// splitCollide returns the two requests of a pair unit.
func splitCollide(u *fw.Unit) [2]Req {
	q := reqOfUnit(u)
	h := len(q.S) / 2
	a, b := q, q
	a.S, b.S = q.S[:h], q.S[h:]
	return [2]Req{a, b}
}

func alphabetName(ab []byte) string {
	switch string(ab) {
	case string(printAB):
		return "print"
	case string(digitsAB):
		return "digits"
	case string(allAB):
		return "all"
	case string(lowerAB):
		return "lower"
	case string(asciiAB):
		return "ascii"
	case refC39:
		return "c39"
	case "ABCDEFGHIJKLMNOPQRSTUVWXYZ0123456789-/":
		return "aztecmix"
	}
	return "?"
}
