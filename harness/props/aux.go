package props

import (
	"fmt"
	"os"
)

// auxCommands are helper sub-processes used by custom runners (one-shot encodes,
// race workloads).
var auxCommands = map[string]func(args []string) int{}

func Aux(args []string) int {
	if len(args) < 1 {
		fmt.Fprintln(os.Stderr, "usage: vcheck aux <name> …")
		return 2
	}
	f := auxCommands[args[0]]
	if f == nil {
		fmt.Fprintln(os.Stderr, "unknown aux command", args[0])
		return 2
	}
	return f(args[1:])
}
