package props

import (
	"fmt"
	"math/rand"

	"github.com/boombuler/barcode/utils"

	"verifharness/fw"
	"verifharness/refdec"
)

// C17 — Galois-field, polynomial and Reed–Solomon utilities are algebraically correct.
type c17 struct{}

func init() { fw.Register(c17{}) }

func (c17) ID() string { return "C17" }
func (c17) Rule() string {
	return "every operand pair of each of the 7 fields the library constructs (Multiply vs carry-less reference, commutativity, inverse, Divide defined and undoing Multiply, AddOrSub = xor) — exhaustive; associativity over all triples of the fields up to 256 elements (thorough) or sampled; random and structured polynomials vs reference; RS encoder histories (ascending/descending/random/repeated check counts 0..600) checked by evaluating data||check at the required roots, with the cache-invariant hook on; non-trivial = a case whose full oracle ran; distinct by (field, operands) / case hash"
}
func (c17) Assumptions() []string {
	return []string{
		"reference arithmetic is shift-and-xor multiplication modulo the field polynomial with generator element 2 (refdec/gf.go)",
		"don't-care: divisor 0, Invers(0), empty coefficient slices, zero divisor polynomial",
	}
}

type fieldSpec struct {
	pp, size, base int
	name           string
}

var c17Fields = []fieldSpec{
	{0x13, 16, 1, "GF16/0x13"}, {0x43, 64, 1, "GF64/0x43"}, {285, 256, 0, "GF256/285"}, {301, 256, 1, "GF256/301"},
	{0x12D, 256, 1, "GF256/0x12D"}, {0x409, 1024, 1, "GF1024/0x409"}, {0x1069, 4096, 1, "GF4096/0x1069"},
}

func (c17) Gen(tier string, seed int64) []fw.Unit {
	var us []fw.Unit
	for fi, f := range c17Fields {
		step := 64
		for a := 0; a < f.size; a += step {
			hi := a + step
			if hi > f.size {
				hi = f.size
			}
			us = append(us, fw.U("gf.pairs", nil, f.name, int64(fi), int64(a), int64(hi)))
		}
		if f.size <= 256 {
			if tier == "thorough" {
				for a := 0; a < f.size; a += 8 {
					us = append(us, fw.U("gf.assoc", nil, f.name, int64(fi), int64(a), int64(min(a+8, f.size)), 0))
				}
			} else {
				us = append(us, fw.U("gf.assoc", nil, f.name, int64(fi), 0, 0, 200000))
			}
		} else {
			n := int64(200000)
			if tier == "thorough" {
				n = 4000000
			}
			us = append(us, fw.U("gf.assoc", nil, f.name, int64(fi), 0, 0, n))
		}
	}
	r := rngFor(seed, "C17")
	npoly, nrs := 160, 320
	if tier == "thorough" {
		npoly, nrs = 1600, 4800
	}
	for i := 0; i < npoly; i++ {
		us = append(us, fw.U("gf.poly", nil, "poly", int64(i%len(c17Fields)), r.Int63(), 500))
	}
	for fi := range c17Fields {
		us = append(us, fw.U("rs.leadingzeros", nil, "leading-zero-check-symbols", int64(fi), r.Int63()))
	}
	orders := []string{"asc", "desc", "random", "repeat", "big-first"}
	for i := 0; i < nrs; i++ {
		us = append(us, fw.U("rs.history", nil, orders[i%len(orders)], int64(i%len(c17Fields)), r.Int63(), int64(i%len(orders))))
	}
	return us
}

func refField(f fieldSpec) refdec.Field { return refdec.Field{Poly: f.pp, Size: f.size} }

// safe2 calls a binary field operation and reports a panic as ok=false.
func safe2(f func(a, b int) int, a, b int) (v int, ok bool, pv any) {
	defer func() {
		if r := recover(); r != nil {
			ok = false
			pv = r
		}
	}()
	return f(a, b), true, nil
}

func (p c17) Exec(c *fw.Ctx, u *fw.Unit) {
	fi := int(u.Int(0))
	fs := c17Fields[fi]
	rf := refField(fs)
	switch u.Fn {
	case "gf.pairs":
		gf := utils.NewGaloisField(fs.pp, fs.size, fs.base)
		lo, hi := int(u.Int(1)), int(u.Int(2))
		c.Step(func() string { return fmt.Sprintf("%s a in [%d,%d)", fs.name, lo, hi) })
		for a := lo; a < hi; a++ {
			if a != 0 {
				inv, ok, pv := safe2(func(x, _ int) int { return gf.Invers(x) }, a, 0)
				if !ok {
					c.Violation("gf.Invers/panic", fmt.Sprintf("%s Invers(%d) panics: %v", fs.name, a, pv), "", "")
				} else if m, ok2, _ := safe2(gf.Multiply, a, inv); !ok2 || m != 1 {
					c.Violation("gf.Invers/not-inverse", fmt.Sprintf("%s %d*Invers(%d)=%d*%d=%d, want 1", fs.name, a, a, a, inv, m), "", "")
				}
			}
			for b := 0; b < fs.size; b++ {
				c.Eval()
				want := rf.Mul(a, b)
				got, ok, pv := safe2(gf.Multiply, a, b)
				if !ok {
					c.Violation("gf.Multiply/panic", fmt.Sprintf("%s Multiply(%d,%d) panics: %v", fs.name, a, b, pv), "", "")
					continue
				}
				if got != want {
					c.Violation("gf.Multiply/value", fmt.Sprintf("%s Multiply(%d,%d)=%d, reference %d", fs.name, a, b, got, want), "", "")
				}
				if g2, ok2, _ := safe2(gf.Multiply, b, a); !ok2 || g2 != got {
					c.Violation("gf.Multiply/commutative", fmt.Sprintf("%s Multiply(%d,%d)=%d but Multiply(%d,%d)=%d", fs.name, a, b, got, b, a, g2), "", "")
				}
				if x := gf.AddOrSub(a, b); x != a^b {
					c.Violation("gf.AddOrSub/value", fmt.Sprintf("%s AddOrSub(%d,%d)=%d, want %d", fs.name, a, b, x, a^b), "", "")
				}
				if b != 0 {
					q, okd, pv := safe2(gf.Divide, a, b)
					if !okd {
						c.Violation("gf.Divide/panic", fmt.Sprintf("%s Divide(%d,%d) panics: %v", fs.name, a, b, pv), "", "")
					} else {
						if q < 0 || q >= fs.size {
							c.Violation("gf.Divide/range", fmt.Sprintf("%s Divide(%d,%d)=%d outside the field", fs.name, a, b, q), "", "")
						} else if back, okb, _ := safe2(gf.Multiply, q, b); !okb || back != a {
							c.Violation("gf.Divide/undo", fmt.Sprintf("%s Divide(%d,%d)=%d but %d*%d=%d", fs.name, a, b, q, q, b, back), "", "")
						}
					}
				}
				c.NontrivialUnique()
			}
		}
		c.Cover("field_pairs_exhaustive", fs.name)
		if lo == 0 {
			c.Sample(map[string]any{"field": fs.name, "case": "all pairs (a,b), a in [0,64)", "example": fmt.Sprintf("Multiply(3,7)=%d ref %d", gf.Multiply(3, 7), rf.Mul(3, 7))})
		}
	case "gf.assoc":
		gf := utils.NewGaloisField(fs.pp, fs.size, fs.base)
		lo, hi, n := int(u.Int(1)), int(u.Int(2)), int(u.Int(3))
		chk := func(a, b, cc int) {
			c.Eval()
			l := gf.Multiply(gf.Multiply(a, b), cc)
			r := gf.Multiply(a, gf.Multiply(b, cc))
			if l != r {
				c.Violation("gf.Multiply/associative", fmt.Sprintf("%s (%d*%d)*%d=%d but %d*(%d*%d)=%d", fs.name, a, b, cc, l, a, b, cc, r), "", "")
			}
			if w := rf.Mul(rf.Mul(a, b), cc); l != w {
				c.Violation("gf.Multiply/value", fmt.Sprintf("%s (%d*%d)*%d=%d, reference %d", fs.name, a, b, cc, l, w), "", "")
			}
		}
		if n == 0 {
			for a := lo; a < hi; a++ {
				for b := 0; b < fs.size; b++ {
					for cc := 0; cc < fs.size; cc++ {
						chk(a, b, cc)
						c.NontrivialUnique()
					}
				}
			}
			c.Cover("field_triples_exhaustive", fs.name)
		} else {
			r := rngFor(c.Seed, "assoc"+fs.name)
			for i := 0; i < n; i++ {
				a, b, cc := r.Intn(fs.size), r.Intn(fs.size), r.Intn(fs.size)
				chk(a, b, cc)
				c.Nontrivial("assoc", fi, a, b, cc)
			}
			c.Cover("field_triples_sampled", fs.name)
		}
	case "gf.poly":
		gf := utils.NewGaloisField(fs.pp, fs.size, fs.base)
		r := rngFor(u.Int(1), "poly")
		for i := 0; i < int(u.Int(2)); i++ {
			c17Poly(c, gf, rf, fs, r)
		}
	case "rs.leadingzeros":
		// data whose check symbols begin with 1, 2, 3 zero symbols (value-directed, found
		// with the reference arithmetic), and all-zero / single-symbol data
		r := rngFor(u.Int(1), "rslz")
		gf := utils.NewGaloisField(fs.pp, fs.size, fs.base)
		enc := utils.NewReedSolomonEncoder(gf)
		found := [4]int{}
		budget := 400000
		if fs.size >= 1024 {
			budget = 3000000
		}
		for tries := 0; tries < budget && (found[1] < 20 || found[2] < 6); tries++ {
			k := 2 + r.Intn(12)
			data := make([]int, 1+r.Intn(12))
			for i := range data {
				data[i] = r.Intn(fs.size)
			}
			want := rf.RSCheck(data, fs.base, k)
			z := 0
			for z < 3 && z < k && want[z] == 0 {
				z++
			}
			if z == 0 || found[z] >= 20 {
				continue
			}
			found[z]++
			c.Eval()
			inner := fmt.Sprintf("%s k=%d data=%v expected check=%v", fs.name, k, data, want)
			var got []int
			pv, _ := fw.Call(func() { got = enc.Encode(append([]int{}, data...), k) })
			if pv != nil {
				c.Violation("rs.Encode/panic/leading-zero-check", fmt.Sprintf("panic: %v", pv), inner, "")
				continue
			}
			if !refdec.PolyEq(append([]int{1}, got...), append([]int{1}, want...)) || len(got) != k {
				c.Violation("rs.Encode/value/leading-zero-check", fmt.Sprintf("check symbols %v, reference %v", got, want), inner, "")
				continue
			}
			c.Nontrivial("rslz", inner)
			c.Cover("rs_leading_zero_check_symbols", fmt.Sprintf("%s:%d", fs.name, z))
		}
	case "rs.history":
		c17RS(c, fs, rf, u)
	}
}

func randPoly(r *rand.Rand, size int) []int {
	switch r.Intn(12) {
	case 0:
		return []int{0}
	case 1:
		return []int{1 + r.Intn(size-1)}
	case 2: // leading zeros
		p := make([]int, 2+r.Intn(6))
		p[len(p)-1] = r.Intn(size)
		return p
	}
	n := 1 + r.Intn(41)
	p := make([]int, n)
	for i := range p {
		p[i] = r.Intn(size)
	}
	if r.Intn(5) == 0 {
		p[0] = 0
	}
	return p
}

func c17Poly(c *fw.Ctx, gf *utils.GaloisField, rf refdec.Field, fs fieldSpec, r *rand.Rand) {
	c.Eval()
	a, b := randPoly(r, fs.size), randPoly(r, fs.size)
	if r.Intn(6) == 0 { // equal degrees
		b = append([]int{}, a...)
		b[r.Intn(len(b))] ^= 1 + r.Intn(fs.size-1)
	}
	inner := fmt.Sprintf("%s a=%v b=%v", fs.name, a, b)
	c.Step(func() string { return inner })
	bad := false
	// the coefficient slices handed to the library are sub-slices of one larger buffer
	// (neighbouring polynomials of one message): nothing outside them may be touched
	const guard = 48
	buf := make([]int, len(a)+len(b)+3*guard)
	for i := range buf {
		buf[i] = -7
	}
	sa := buf[guard : guard+len(a) : guard+len(a)+guard/2]
	sb := buf[2*guard+len(a) : 2*guard+len(a)+len(b) : len(buf)-guard/2]
	copy(sa, a)
	copy(sb, b)
	defer func() {
		for i, v := range buf {
			inA := i >= guard && i < guard+len(a)
			inB := i >= 2*guard+len(a) && i < 2*guard+len(a)+len(b)
			if !inA && !inB && v != -7 {
				c.Violation("gfpoly/writes-outside-argument", fmt.Sprintf("an operation wrote %d into the caller's buffer at offset %d, outside the coefficient slices it was given", v, i), inner, "")
				return
			}
		}
		for i := range a {
			if sa[i] != a[i] {
				c.Violation("gfpoly/modifies-argument", "coefficients of operand a were changed", inner, "")
				return
			}
		}
		for i := range b {
			if sb[i] != b[i] {
				c.Violation("gfpoly/modifies-argument", "coefficients of operand b were changed", inner, "")
				return
			}
		}
	}()
	pv, _ := fw.Call(func() {
		pa := utils.NewGFPoly(gf, sa)
		pb := utils.NewGFPoly(gf, sb)
		if s := pa.AddOrSubstract(pb); !refdec.PolyEq(s.Coefficients, rf.PolyAdd(a, b)) {
			c.Violation("gfpoly.AddOrSubstract", fmt.Sprintf("sum %v, reference %v", s.Coefficients, rf.PolyAdd(a, b)), inner, "")
			bad = true
		}
		if m := pa.Multiply(pb); !refdec.PolyEq(m.Coefficients, rf.PolyMul(refdec.PolyNorm(a), refdec.PolyNorm(b))) {
			c.Violation("gfpoly.Multiply", fmt.Sprintf("product %v, reference %v", m.Coefficients, rf.PolyMul(refdec.PolyNorm(a), refdec.PolyNorm(b))), inner, "")
			bad = true
		}
		deg, co := r.Intn(8), r.Intn(fs.size)
		mono := make([]int, deg+1)
		mono[0] = co
		if m := pa.MultByMonominal(deg, co); !refdec.PolyEq(m.Coefficients, rf.PolyMul(refdec.PolyNorm(a), refdec.PolyNorm(mono))) {
			c.Violation("gfpoly.MultByMonominal", fmt.Sprintf("a*%d x^%d = %v, reference %v", co, deg, m.Coefficients, rf.PolyMul(refdec.PolyNorm(a), refdec.PolyNorm(mono))), inner, "")
			bad = true
		}
		if !refdec.PolyIsZero(b) {
			q, rem := pa.Divide(pb)
			back := rf.PolyAdd(rf.PolyMul(refdec.PolyNorm(q.Coefficients), refdec.PolyNorm(b)), rem.Coefficients)
			if !refdec.PolyEq(back, a) {
				c.Violation("gfpoly.Divide/identity", fmt.Sprintf("q=%v r=%v: q*b+r=%v != a", q.Coefficients, rem.Coefficients, back), inner, "")
				bad = true
			}
			// quotient and remainder are polynomials like any other: the library's own
			// operations must work on them and reproduce the dividend
			if q == nil || rem == nil || len(q.Coefficients) == 0 || len(rem.Coefficients) == 0 {
				c.Violation("gfpoly.Divide/malformed-result", fmt.Sprintf("quotient %v / remainder %v without coefficients", q, rem), inner, "")
				bad = true
				return
			}
			_, _ = rem.Zero(), rem.Degree()
			if lib := q.Multiply(pb).AddOrSubstract(rem); !refdec.PolyEq(lib.Coefficients, a) {
				c.Violation("gfpoly.Divide/identity", fmt.Sprintf("with the library's own operations q*b+r = %v != a", lib.Coefficients), inner, "")
				bad = true
			}
			if len(refdec.PolyNorm(b)) == 1 {
				c.Cover("divisor_degree", "0 (non-zero constant)")
			}
			nr, nb := refdec.PolyNorm(rem.Coefficients), refdec.PolyNorm(b)
			if !refdec.PolyIsZero(nr) && len(nr) >= len(nb) {
				c.Violation("gfpoly.Divide/degree", fmt.Sprintf("remainder %v has degree >= divisor %v", nr, nb), inner, "")
				bad = true
			}
		}
	})
	if pv != nil {
		c.Violation("gfpoly/panic", fmt.Sprintf("panic: %v", pv), inner, "")
		bad = true
	}
	if !bad {
		c.Nontrivial("poly", inner)
	}
	if c.Res().Evals%977 == 0 {
		c.Sample(map[string]any{"field": fs.name, "a": a, "b": b})
	}
}

// c17RS drives one encoder through a history of check-symbol counts with the
// cache-invariant hook on.
func c17RS(c *fw.Ctx, fs fieldSpec, rf refdec.Field, u *fw.Unit) {
	r := rngFor(u.Int(1), "rs")
	gf := utils.NewGaloisField(fs.pp, fs.size, fs.base)
	var enc *utils.ReedSolomonEncoder
	hookViol := 0
	growths := 0
	utils.VerifPolySink = func(ev *utils.VerifPolyEvent) {
		if ev.Encoder != enc {
			return
		}
		if msg := polyCacheInvariant(ev, rf, fs.base); msg != "" {
			hookViol++
			if hookViol <= 3 {
				c.Violation("rs.cache-invariant", msg, fmt.Sprintf("%s degree=%d lenBefore=%d lenAfter=%d", fs.name, ev.Degree, ev.LenBefore, ev.LenAfter), "")
			}
		}
		if ev.LenAfter > ev.LenBefore {
			growths++
			c.Cover("cache_growth(lenBefore->degree)", fmt.Sprintf("%s:%d->%d", fs.name, bucket(ev.LenBefore), bucket(ev.Degree)))
		}
	}
	defer func() { utils.VerifPolySink = nil }()
	enc = utils.NewReedSolomonEncoder(gf)
	maxK := 600
	var ks []int
	n := 12 + r.Intn(20)
	switch u.Int(2) {
	case 0: // ascending
		k := 1
		for i := 0; i < n && k <= maxK; i++ {
			ks = append(ks, k)
			k += 1 + r.Intn(2*maxK/n)
		}
	case 1: // descending
		k := maxK - r.Intn(30)
		for i := 0; i < n && k >= 1; i++ {
			ks = append(ks, k)
			k -= 1 + r.Intn(2*maxK/n)
		}
	case 2:
		for i := 0; i < n; i++ {
			ks = append(ks, 1+r.Intn(maxK))
		}
	case 3: // repeated
		base := []int{1 + r.Intn(40), 1 + r.Intn(maxK), 1 + r.Intn(fs.size)}
		for i := 0; i < n; i++ {
			ks = append(ks, base[r.Intn(len(base))])
		}
	default: // big first then small ones near field order
		ks = append(ks, maxK)
		for i := 0; i < n; i++ {
			ks = append(ks, max(1, fs.size-3+r.Intn(6)))
		}
	}
	// zero check symbols is a number of check symbols too: somewhere in the history
	ks = append(ks, 0)
	if len(ks) > 3 {
		p := r.Intn(len(ks) - 1)
		ks[p], ks[len(ks)-1] = ks[len(ks)-1], ks[p]
		ks = append(ks, ks[p+1])
	}
	for _, k := range ks {
		c.Eval()
		var data []int
		switch r.Intn(8) {
		case 0:
			data = []int{}
		case 1:
			data = make([]int, 1+r.Intn(20)) // all zero
		case 2:
			data = make([]int, 3+r.Intn(20)) // leading zeros
			data[len(data)-1] = 1 + r.Intn(fs.size-1)
		case 3:
			data = make([]int, 1+r.Intn(30))
			for i := range data {
				data[i] = fs.size - 1
			}
		default:
			data = make([]int, 1+r.Intn(120))
			for i := range data {
				data[i] = r.Intn(fs.size)
			}
		}
		inner := fmt.Sprintf("%s history=%v k=%d data=%v", fs.name, ks, k, data)
		c.Step(func() string { return inner })
		var out []int
		// the data block is a sub-slice of a longer message with spare capacity behind it
		msg := make([]int, len(data)+700)
		for i := range msg {
			msg[i] = -7
		}
		in := msg[: len(data) : len(data)+650]
		copy(in, data)
		pv, _ := fw.Call(func() { out = enc.Encode(in, k) })
		for i := len(data); i < len(msg); i++ {
			if msg[i] != -7 {
				c.Violation("rs.Encode/writes-outside-argument", fmt.Sprintf("Encode wrote %d into the caller's buffer %d elements behind the data slice", msg[i], i-len(data)), inner, "")
				break
			}
		}
		klass := "k<order"
		if k+fs.base > fs.size-1 {
			klass = "k>=order"
		}
		if pv != nil {
			c.Violation("rs.Encode/panic/"+klass, fmt.Sprintf("Encode(len %d, %d check symbols) panics: %v", len(data), k, pv), inner, "")
			continue
		}
		for i := range data {
			if in[i] != data[i] {
				c.Violation("rs.Encode/modifies-input", "Encode changed its data argument", inner, "")
				break
			}
		}
		if len(out) != k {
			c.Violation("rs.Encode/count", fmt.Sprintf("%d check symbols returned, %d requested", len(out), k), inner, "")
			continue
		}
		okRange := true
		for _, v := range out {
			if v < 0 || v >= fs.size {
				okRange = false
			}
		}
		if !okRange {
			c.Violation("rs.Encode/range", "check symbol outside the field", inner, "")
			continue
		}
		cw := append(append([]int{}, data...), out...)
		if ok, e := rf.SyndromesZero(cw, fs.base, k); !ok {
			c.Violation("rs.Encode/syndrome/"+klass, fmt.Sprintf("data||check does not vanish at alpha^%d (k=%d)", e, k), inner, "")
			continue
		}
		c.Nontrivial("rs", inner)
		c.Cover("rs_check_count_bucket", fmt.Sprintf("%s:%d", fs.name, bucket(k)))
		c.Cover("rs_order", u.Tag)
		if r.Intn(40) == 0 {
			c.Sample(map[string]any{"field": fs.name, "order": u.Tag, "history": ks, "k": k, "data_len": len(data)})
		}
	}
	c.Extra("rs_cache_growth_events", int64(growths))
}

func bucket(k int) int {
	switch {
	case k < 16:
		return k
	case k < 64:
		return k / 8 * 8
	default:
		return k / 64 * 64
	}
}

// polyCacheInvariant is evaluated under the cache's own lock: entry 0 is the constant
// 1, entry d is monic of degree d and equals entry d-1 times (x - alpha^(base+d-1)).
// Only entries added by this call (and their predecessor) are re-derived; older ones
// were checked when they were added and must merely still be monic of their degree.
func polyCacheInvariant(ev *utils.VerifPolyEvent, rf refdec.Field, base int) string {
	if ev.LenAfter != len(ev.Polys) {
		return fmt.Sprintf("reported length %d != cache length %d", ev.LenAfter, len(ev.Polys))
	}
	if ev.LenAfter < ev.LenBefore {
		return fmt.Sprintf("cache shrank from %d to %d entries", ev.LenBefore, ev.LenAfter)
	}
	if ev.Degree >= ev.LenAfter {
		return fmt.Sprintf("degree %d requested but cache has only %d entries after the call", ev.Degree, ev.LenAfter)
	}
	for d, p := range ev.Polys {
		if p == nil {
			return fmt.Sprintf("entry %d is nil", d)
		}
		if len(p.Coefficients) != d+1 || p.Coefficients[0] != 1 {
			return fmt.Sprintf("entry %d is not monic of degree %d: %d coefficients", d, d, len(p.Coefficients))
		}
	}
	from := ev.LenBefore
	if from < 1 {
		from = 1
	}
	for d := from; d < ev.LenAfter; d++ {
		root := rf.Pow(2, (base+d-1)%(rf.Size-1))
		want := rf.PolyMul(ev.Polys[d-1].Coefficients, []int{1, root})
		if !refdec.PolyEq(want, ev.Polys[d].Coefficients) {
			return fmt.Sprintf("entry %d != entry %d * (x - alpha^%d)", d, d-1, base+d-1)
		}
	}
	return ""
}
