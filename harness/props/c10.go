package props

import (
	"bytes"
	"fmt"
	"math"
	"math/rand"
	"strings"
	"unicode/utf8"

	"github.com/boombuler/barcode"

	"verifharness/fw"
	"verifharness/refdec"
)

// C10 — Encoders accept exactly the representable inputs and never panic or hang.
type c10 struct{}

func init() { fw.Register(c10{}) }

func (c10) ID() string { return "C10" }
func (c10) Rule() string {
	return "every exported Encode* function (22 entry points, plain and WithColor) and AddCheckSum driven with (1) boundary-directed inputs: lengths cap-1/cap/cap+1 for QR version-40 capacities per level x mode (and a sample of lower versions), DataMatrix 1558 codewords per content class, Code 128 80 runes, PDF417 totals around 900/928 per level, Aztec largest/requested size for forced-binary payloads; (2) hostile inputs: empty, invalid UTF-8, multi-byte runes, sign characters and spaces in numeric fields, NUL/DEL/U+0080/U+00F1..F4, every single byte value, lengths 0/1/cap/cap+1/~3*cap, integer extremes for int parameters, all 256 PDF417 level bytes; oracle: independent three-region predicate (must-accept / must-reject / don't-care), no panic, no hang, exactly one of (barcode, error); non-trivial = case inside the must-accept or must-reject region whose outcome was compared, distinct by request"
}
func (c10) Assumptions() []string {
	return []string{
		"don't-care: undefined qr.Encoding / ErrorCorrectionLevel values, empty content where the symbology has no length rule, PDF417 totals 901..928 codewords, PDF417 payloads whose encoded length is not exactly predictable from the outside beyond 2 codewords per character, negative Aztec percentages",
		"capacity is read relative to the compaction each encoder implements (as C13 words it): content beyond it but below the densest encoding of the standard (DataMatrix beyond ASCII encodation, QR Auto beyond any single mode, PDF417 beyond its greedy text sub-mode choice) may be refused; if accepted, the symbol must decode to the content",
		"Aztec general text: must-accept when one valid latch-only encoding (refdec.AztecSimpleBits) fits with three words of margin, must-reject above 2.5 bits per byte; exact for upper-case-only and bytes >= 0x80",
		"non-termination is decided on CPU time of the child process (120 CPU-seconds without progress) and a goroutine dump naming a library frame",
	}
}

const (
	expDontCare = iota
	expAccept
	expReject
	// expBeyond: more than the compaction this encoder implements can hold, but not more
	// than the symbology can hold with a better encoding.  The encoder may accept (then
	// the symbol must decode to the content) or refuse; capacity is read relative to the
	// implemented compaction, as C13 does ("the content's ASCII encodation", "the
	// densest single mode").
	expBeyond
)

// decodedPayload reads the symbol of an accepted 2D request with the reference decoder.
func decodedPayload(req Req, bc barcode.Barcode) ([]byte, error) {
	g, err := grid2D(bc)
	if err != nil {
		return nil, err
	}
	switch req.Fam {
	case "qr":
		res, err := refdec.DecodeQR(g)
		if err != nil {
			return nil, err
		}
		return res.Payload, nil
	case "datamatrix":
		res, err := refdec.DecodeDataMatrix(g)
		if err != nil {
			return nil, err
		}
		return res.Payload, nil
	case "pdf417":
		res, err := refdec.DecodePDF417(g)
		if err != nil {
			return nil, err
		}
		return res.Payload, nil
	case "aztec":
		res, err := refdec.DecodeAztec(g)
		if err != nil {
			return nil, err
		}
		return res.Payload, nil
	}
	return nil, fmt.Errorf("no reference decoder for %s", req.Fam)
}

func allIn(s string, set string) bool {
	for _, r := range s {
		if r == utf8.RuneError || !strings.ContainsRune(set, r) {
			return false
		}
	}
	return true
}

func asciiOnly(s string) bool {
	for i := 0; i < len(s); i++ {
		if s[i] > 127 {
			return false
		}
	}
	return true
}

// pdfForcedCodewords returns the exact number of data codewords (without length
// descriptor) of payloads whose compaction is forced, or -1.
func pdfForcedCodewords(b []byte) int {
	if len(b) == 0 {
		return 0
	}
	isUpper, isDigit, isHigh := true, true, true
	for _, c := range b {
		if !(c >= 'A' && c <= 'Z') {
			isUpper = false
		}
		if !(c >= '0' && c <= '9') {
			isDigit = false
		}
		if c < 128 {
			isHigh = false
		}
	}
	switch {
	case isUpper:
		return (len(b) + 1) / 2
	case isDigit && len(b) >= 13:
		n := 1
		for rem := len(b); rem > 0; rem -= 44 {
			d := rem
			if d > 44 {
				d = 44
			}
			n += d/3 + 1
		}
		return n
	case isHigh && len(b) >= 2:
		return 1 + 5*(len(b)/6) + len(b)%6
	}
	return -1
}

// aztecForcedBits: minimal high-level bit count of an all->=0x80 payload.
func aztecForcedBits(b []byte) int {
	for _, c := range b {
		if c < 128 && c != 0 {
			return -1
		}
	}
	n := len(b)
	bits := 0
	for n > 0 {
		k := n
		if k > 2078 {
			k = 2078
		}
		switch {
		case k <= 31:
			bits += 10 + 8*k
		case k <= 62:
			bits += 20 + 8*k
		default:
			bits += 21 + 8*k
		}
		n -= k
	}
	return bits
}

func expectation(r Req) (int, string) {
	s := string(r.S)
	switch r.Fam {
	case "codabar":
		if codabarRule.MatchString(s) {
			return expAccept, "start letter, body, stop letter"
		}
		return expReject, "not ^[A-D][0-9$:/.+-]*[A-D]$"
	case "code39":
		if s == "" {
			return expDontCare, ""
		}
		if r.int(1) != 0 {
			if asciiOnly(s) {
				return expAccept, "ASCII text in full-ASCII mode"
			}
			return expReject, "rune above 127 in full-ASCII mode"
		}
		if allIn(s, refC39) {
			return expAccept, "text over the 43-character alphabet"
		}
		return expReject, "character outside the 43-character alphabet in basic mode"
	case "code93":
		if s == "" {
			return expDontCare, ""
		}
		if r.int(1) != 0 {
			if asciiOnly(s) {
				return expAccept, "ASCII text in full-ASCII mode"
			}
			return expReject, "rune above 127 in full-ASCII mode"
		}
		if allIn(s, refC39) {
			return expAccept, "text over the 43-character alphabet"
		}
		if allIn(s, refC39+"ñòóô") {
			// ($)(%)(/)(+) are characters of the symbology, exported as FNC1..FNC4
			return expAccept, "text over the 43 characters and the four special characters FNC1..FNC4"
		}
		return expReject, "character outside the alphabet in basic mode"
	case "code128", "code128nocs":
		n := utf8.RuneCountInString(s)
		if n >= 1 && n <= 80 && c128Representable(s) && utf8.ValidString(s) {
			return expAccept, "1..80 runes over ASCII and FNC1-4"
		}
		return expReject, "empty, longer than 80 runes, or a rune outside ASCII/FNC"
	case "ean":
		if eanExpect(s) != "" {
			return expAccept, "7/12 digits or 8/13 digits with correct check digit"
		}
		return expReject, "wrong length, non-digit or wrong check digit"
	case "2of5":
		if allDigits(s) && s != "" && (r.int(0) == 0 || len(s)%2 == 0) {
			return expAccept, "digit string (even length if interleaved)"
		}
		return expReject, "empty, non-digit, or odd length in interleaved mode"
	case "qr":
		lvl, mode := r.int(0), r.int(1)
		if lvl < 0 || lvl > 3 || mode < 0 || mode > 3 {
			return expDontCare, ""
		}
		if s == "" {
			return expDontCare, ""
		}
		capN, capA, capB := refdec.QRCapacity(1, 40, int(lvl)), refdec.QRCapacity(2, 40, int(lvl)), refdec.QRCapacity(4, 40, int(lvl))
		dig, aln := allDigits(s), allIn(s, refQRAlnum)
		switch mode {
		case 1:
			if dig && len(s) <= capN {
				return expAccept, "digits within the version-40 numeric capacity"
			}
			return expReject, "non-digit in numeric mode or beyond version-40 capacity"
		case 2:
			if aln && len(s) <= capA {
				return expAccept, "alphanumeric within the version-40 capacity"
			}
			return expReject, "character outside the 45-character set or beyond version-40 capacity"
		case 3:
			if len(s) <= capB {
				return expAccept, "bytes within the version-40 capacity"
			}
			return expReject, "beyond the version-40 byte capacity"
		default:
			if len(s) <= capB || (aln && len(s) <= capA) || (dig && len(s) <= capN) {
				return expAccept, "representable in some mode within version 40"
			}
			// a mix of segments cannot be denser than 10/3 bits per digit, 11/2 per other
			// alphanumeric character and 8 per other byte, plus one segment header
			sixthBits := 0
			for i := 0; i < len(s); i++ {
				switch {
				case s[i] >= '0' && s[i] <= '9':
					sixthBits += 20
				case strings.IndexByte(refQRAlnum, s[i]) >= 0:
					sixthBits += 33
				default:
					sixthBits += 48
				}
			}
			if sixthBits/6+14 > 8*refdec.QRDataCodewords(40, int(lvl)) {
				return expReject, "beyond version-40 capacity in every segmentation"
			}
			return expBeyond, "beyond version-40 capacity in any single mode, a mix of segments might fit"
		}
	case "datamatrix":
		if refdec.DMAsciiCodewords(r.S) <= 1558 {
			return expAccept, "ASCII encodation within 1558 codewords"
		}
		// no encodation scheme is denser than 2 digits, 1.5 other ASCII characters or
		// 1 byte per codeword
		sixths := 0
		for _, c := range r.S {
			switch {
			case c >= '0' && c <= '9':
				sixths += 3
			case c < 128:
				sixths += 4
			default:
				sixths += 6
			}
		}
		if (sixths+5)/6 > 1558 {
			return expReject, "exceeds 1558 codewords in every encodation scheme"
		}
		return expBeyond, "ASCII encodation exceeds 1558 codewords, a denser scheme might not"
	case "pdf417":
		lvl := r.int(0)
		if lvl < 0 || lvl > 255 {
			return expDontCare, ""
		}
		if lvl >= 9 {
			return expReject, "security level above 8"
		}
		k := 2 << uint(lvl)
		n := pdfForcedCodewords(r.S)
		if n < 0 {
			// not forced: judged only when comfortably small (two values per character worst case)
			if 2*len(r.S)+4+k <= 900 {
				return expAccept, "small payload"
			}
			if refdec.PDFSimpleCodewords(r.S)+1+k <= 900 {
				return expBeyond, "a latch-only text encoding fits 30x30; this encoder's greedy sub-mode choice might not"
			}
			return expDontCare, ""
		}
		total := n + 1 + k
		switch {
		case total <= 900:
			return expAccept, fmt.Sprintf("%d codewords in total fit 30x30", total)
		case total > 928:
			return expReject, fmt.Sprintf("%d codewords in total exceed 928", total)
		}
		return expDontCare, ""
	case "aztec":
		pct, l := r.int(0), r.int(1)
		if l < -4 || l > 32 {
			return expReject, "layer request outside -4..32"
		}
		if pct < 0 {
			return expDontCare, ""
		}
		comp, L := l < 0, int(l)
		if comp {
			L = -L
		}
		if l == 0 {
			comp, L = false, 32
		}
		total := refdec.AztecTotalBits(comp, L)
		ws := 12
		switch {
		case L <= 2:
			ws = 6
		case L <= 8:
			ws = 8
		case L <= 22:
			ws = 10
		}
		bits := aztecForcedBits(r.S)
		if len(r.S) == 0 {
			bits = 0
		}
		if up := aztecUpperStuffed(r.S, ws); up >= 0 {
			// upper-case letters only: 5 bits per character in the initial mode is the
			// unique shortest encoding, so the stuffed length is exact
			ubits := 5 * len(r.S)
			ecc := int(math.Floor(float64(pct) * float64(ubits) / 100))
			if comp && up > 64*ws {
				return expReject, "more than 64 data words in a compact symbol"
			}
			if float64(up)+float64(ecc) > float64(total) {
				return expReject, "stuffed payload plus requested check bits exceed the size"
			}
			// this implementation asks for 11 more bits than the percentage; allow one more word of slack
			if up+ecc+11+ws <= total-total%ws {
				return expAccept, fmt.Sprintf("%d stuffed bits + %d check bits fit %d", up, ecc, total)
			}
			return expDontCare, ""
		}
		if 5*len(r.S) > 2*total {
			// no code is shorter than 2.5 bits per byte (the two-character Punct codes)
			return expReject, fmt.Sprintf("%d bytes need more than the %d bits of the size", len(r.S), total)
		}
		if bits < 0 {
			if len(r.S) <= 20 && pct <= 50 && l == 0 {
				return expAccept, "small payload, automatic size"
			}
			// general text: one valid encoding (latches, Punct pairs, binary shifts) has sb
			// bits; the shortest encoding has at most as many.  With room for stuffing, the
			// requested check words (of at most sb bits), the 11 extra bits this
			// implementation asks for and two spare words, the content is representable.
			if pct <= 100 {
				sb := float64(refdec.AztecSimpleBits(r.S))
				stuffed := sb*float64(ws)/float64(ws-1) + float64(2*ws)
				if stuffed+math.Floor(float64(pct)*sb/100)+11+float64(3*ws) <= float64(total) && (!comp || stuffed <= float64(64*ws)) {
					return expAccept, fmt.Sprintf("a valid encoding of %.0f bits fits the size with margin", sb)
				}
			}
			return expDontCare, ""
		}
		// lower bound on what any symbol must carry: the stuffed length of the minimal
		// binary-shift encoding, less a margin for other header arrangements
		sl := aztecStuffedLen(r.S, ws) - 3*ws
		if sl < bits {
			sl = bits
		}
		need := float64(sl) + math.Floor(float64(pct)*float64(bits)/100)
		if need > float64(total) {
			return expReject, fmt.Sprintf("%d stuffed payload bits + %d%% check bits exceed the %d bits of the size", sl, pct, total)
		}
		if comp && sl > 64*ws {
			return expReject, "more than 64 data words in a compact symbol"
		}
		// upper bound of this implementation's need (stuffing + 11 extra bits), with slack
		ub := float64(bits)*float64(ws)/float64(ws-1) + float64(2*ws) + float64(pct)*float64(bits)/100 + 11 + float64(ws)
		if ub <= float64(total-ws) && (!comp || float64(bits)*float64(ws)/float64(ws-1)+float64(2*ws) <= float64(64*ws)) {
			return expAccept, "fits the size with margin"
		}
		return expDontCare, ""
	}
	return expDontCare, ""
}

func (c10) Gen(tier string, seed int64) []fw.Unit {
	r := rngFor(seed, "C10")
	var us []fw.Unit
	nsch := int64(0)
	add := func(tag string, q Req) {
		// alternate between the plain and the WithColor entry point
		nsch++
		q.Scheme = -1
		if nsch%2 == 0 {
			q.Scheme = nsch % 40
		}
		us = append(us, q.Unit("accept", tag))
	}
	hostile := []string{"", " ", "0", "1", "12", "123", "+12", "-0", "-1", "1 2", "12 ", "1.5", "A", "a", "*", "A*B", "AB", "A1B", "$", "%", "/", "+",
		"\x00", "\x01", "\x1f", "\x7f", "\x80", "\xff", "\xc3", "\xc3\x28", "é", "ñ", "ò", "ó", "ô", "õ", "ð", "\u0080", "\u007f", "€", "𝟙", "１２", "٣",
		"A\x00B", "a*", "HELLO WORLD", "hello world", "12345670", "12345678", "1234567", "123456789012", "4006381333931", "4006381333932",
		"A1234B", "A12A", "D$:/.+-D", "E1E", "a1b", "A1B\n", "ñ12", "12ñ34", "ñ1ñ", "ABñ", "12é", "1é", "é1", "éé"}
	for b := 0; b < 256; b++ {
		hostile = append(hostile, string([]byte{byte(b)}), "A"+string([]byte{byte(b)})+"B", "12"+string([]byte{byte(b)})+"3")
	}
	for _, ru := range []rune{0x7e, 0x7f, 0x80, 0x81, 0xf0, 0xf1, 0xf2, 0xf3, 0xf4, 0xf5, 0xff, 0x100, 0x7ff, 0x800, 0xffff, 0x10000, 0x10ffff} {
		hostile = append(hostile, string(ru), "A"+string(ru), string(ru)+"1")
	}
	for _, pre := range []string{"ñ", "ñò", "ñabc", "12ñ34ñ", "ôóòñ", "ñ0000"} {
		for _, bad := range []string{"ä", "\xff", "€", "\xc3", "é", "𝟙"} {
			hostile = append(hostile, pre+bad, pre+bad+"x", pre+"A"+bad, bad+pre)
		}
	}
	for _, l := range "ABCDEFXYZabcxyz" {
		for _, n := range []int{7, 8, 12, 13} {
			hostile = append(hostile, strings.Repeat(string(l), n), "1234567890123"[:n-1]+string(l), string(l)+"1234567890123"[:n-1], "12"+string(l)+"4567890123"[:n-3]+string(l))
		}
	}
	// valid numbers in their printed or transmitted forms: separators, prefixes, suffixes
	for _, num := range []string{"9783161484100", "9791234567896", "4006381333931", "0012345678905", "12345670", "96385074", "1234567", "400638133393", "978316148410"} {
		forms := []string{num + " ", " " + num, num + "\n", "+" + num, "ISBN " + num, "ISBN" + num, "EAN" + num, "(01)0" + num, "]E0" + num, num + "+12", num + " 12345", num + "00", "0" + num}
		for _, sep := range []string{"-", " ", ".", "\u2010", "\u00a0"} {
			if len(num) == 13 {
				forms = append(forms, num[:3]+sep+num[3:4]+sep+num[4:6]+sep+num[6:12]+sep+num[12:], num[:1]+sep+num[1:7]+sep+num[7:], num[:12]+sep+num[12:], num[:3]+sep+num[3:])
			} else if len(num) >= 8 {
				forms = append(forms, num[:4]+sep+num[4:], num[:len(num)-1]+sep+num[len(num)-1:])
			} else {
				forms = append(forms, num[:3]+sep+num[3:])
			}
		}
		hostile = append(hostile, forms...)
	}
	for _, h := range hostile {
		hb := []byte(h)
		add("hostile", Req{Fam: "codabar", S: hb})
		add("hostile", Req{Fam: "ean", S: hb})
		add("hostile", Req{Fam: "code128", S: hb})
		add("hostile", Req{Fam: "code128nocs", S: hb})
		add("hostile", Req{Fam: "datamatrix", S: hb})
		for a := int64(0); a < 2; a++ {
			add("hostile", Req{Fam: "2of5", S: hb, I: []int64{a}})
			for b := int64(0); b < 2; b++ {
				add("hostile", Req{Fam: "code39", S: hb, I: []int64{a, b}})
				add("hostile", Req{Fam: "code93", S: hb, I: []int64{a, b}})
			}
		}
		for mode := int64(0); mode < 4; mode++ {
			add("hostile", Req{Fam: "qr", S: hb, I: []int64{int64(r.Intn(4)), mode}})
		}
		add("hostile", Req{Fam: "pdf417", S: hb, I: []int64{int64(r.Intn(9))}})
		add("hostile", Req{Fam: "aztec", S: hb, I: []int64{33, 0}})
	}
	// decorated valid contents: nothing may be stripped, unwrapped or normalised away
	for _, base := range []Req{
		{Fam: "codabar", S: []byte("A1234B")}, {Fam: "ean", S: []byte("1234567")}, {Fam: "ean", S: []byte("12345670")}, {Fam: "ean", S: []byte("123456789012")}, {Fam: "ean", S: []byte("4006381333931")},
		{Fam: "code128", S: []byte("Code128")}, {Fam: "code128nocs", S: []byte("Code128")}, {Fam: "2of5", S: []byte("1234"), I: []int64{0}}, {Fam: "2of5", S: []byte("1234"), I: []int64{1}},
		{Fam: "code39", S: []byte("AB"), I: []int64{0, 0}}, {Fam: "code39", S: []byte("AB"), I: []int64{1, 0}}, {Fam: "code39", S: []byte("AB"), I: []int64{1, 1}},
		{Fam: "code93", S: []byte("AB"), I: []int64{0, 0}}, {Fam: "code93", S: []byte("AB"), I: []int64{1, 0}}, {Fam: "code93", S: []byte("AB"), I: []int64{1, 1}},
		{Fam: "qr", S: []byte("1234"), I: []int64{0, 1}}, {Fam: "qr", S: []byte("AB12"), I: []int64{1, 2}}, {Fam: "qr", S: []byte("ab12"), I: []int64{2, 3}}, {Fam: "qr", S: []byte("1234"), I: []int64{3, 0}},
		{Fam: "datamatrix", S: []byte("DM12")}, {Fam: "pdf417", S: []byte("PDF 417"), I: []int64{2}}, {Fam: "aztec", S: []byte("Aztec"), I: []int64{33, 0}},
	} {
		for _, d := range decorate(base.S) {
			q := base
			q.S = d
			add("decorated", q)
		}
	}
	for _, fd := range foreignDigitStrings() {
		hb := []byte(fd)
		for _, fam := range []string{"codabar", "ean", "code128", "code128nocs", "datamatrix"} {
			add("foreign-digits", Req{Fam: fam, S: hb})
		}
		add("foreign-digits", Req{Fam: "codabar", S: []byte("A" + fd + "B")})
		for a := int64(0); a < 2; a++ {
			add("foreign-digits", Req{Fam: "2of5", S: hb, I: []int64{a}})
			add("foreign-digits", Req{Fam: "code39", S: hb, I: []int64{a, a}})
			add("foreign-digits", Req{Fam: "code93", S: hb, I: []int64{a, 1 - a}})
		}
		for mode := int64(0); mode < 4; mode++ {
			add("foreign-digits", Req{Fam: "qr", S: hb, I: []int64{int64(r.Intn(4)), mode}})
		}
		add("foreign-digits", Req{Fam: "pdf417", S: hb, I: []int64{int64(r.Intn(9))}})
		add("foreign-digits", Req{Fam: "aztec", S: hb, I: []int64{33, 0}})
	}
	// well-known structured payloads that an encoder might be tempted to treat specially
	for _, sp := range structuredPayloads() {
		for _, q := range []Req{{Fam: "datamatrix", S: sp}, {Fam: "qr", S: sp, I: []int64{1, 0}}, {Fam: "qr", S: sp, I: []int64{2, 3}}, {Fam: "pdf417", S: sp, I: []int64{3}}, {Fam: "aztec", S: sp, I: []int64{33, 0}}, {Fam: "code128", S: sp}} {
			add("structured", q)
		}
	}
	// all 256 PDF417 level bytes
	for l := int64(0); l < 256; l++ {
		add("pdf-level-byte", Req{Fam: "pdf417", S: []byte("LEVEL"), I: []int64{l}})
		add("pdf-level-byte", Req{Fam: "pdf417", S: nil, I: []int64{l}})
	}
	// Aztec integer extremes
	layers := []int64{math.MinInt64, math.MinInt64 + 1, -1 << 40, -33, -6, -5, -4, -3, -2, -1, 0, 1, 2, 3, 4, 5, 31, 32, 33, 34, 1 << 40, math.MaxInt64}
	pcts := []int64{0, 1, 33, 100, 1000, 1000000, 1 << 40, math.MaxInt64}
	for _, l := range layers {
		for _, p := range pcts {
			add("aztec-int-extremes", Req{Fam: "aztec", S: []byte("AZTEC"), I: []int64{p, l}})
			add("aztec-int-extremes", Req{Fam: "aztec", S: []byte{0x80, 0x81, 0x82}, I: []int64{p, l}})
			add("aztec-int-extremes", Req{Fam: "aztec", S: nil, I: []int64{p, l}})
			add("aztec-int-extremes", Req{Fam: "aztec", S: nil, I: []int64{p, l, 1}})
		}
	}
	// Aztec forced-binary payloads around each size's capacity
	for l := int64(-4); l <= 32; l++ {
		comp, L := l < 0, int(l)
		if comp {
			L = -L
		}
		if l == 0 {
			L = 32
		}
		total := refdec.AztecTotalBits(comp, L)
		for _, pct := range []int64{0, 23, 33, 100} {
			nb := int(float64(total) / (1 + float64(pct)/100) / 8)
			for _, d := range []int{-40, -12, -4, -2, -1, 0, 1, 2, 4, 12, 40} {
				if n := nb + d; n >= 1 {
					add("aztec-capacity", Req{Fam: "aztec", S: randBytes(r, n, highAB), I: []int64{pct, l}})
				}
			}
		}
	}
	for _, q := range azBoundaryReqs(r, tier == "thorough", false) {
		add("aztec-capacity-boundary", q)
	}
	for _, q := range azTextCapacityReqs(r, tier == "thorough") {
		add("aztec-text-capacity", q)
	}
	add("aztec-over", Req{Fam: "aztec", S: randBytes(r, 3000, highAB), I: []int64{0, 0}})
	add("aztec-over", Req{Fam: "aztec", S: randBytes(r, 5000, highAB), I: []int64{33, 0}})
	// QR version-40 capacity per level x mode, and a sample of lower versions (accept side)
	for lvl := 0; lvl < 4; lvl++ {
		for _, m := range []int{1, 2, 4} {
			capn := refdec.QRCapacity(m, 40, lvl)
			for _, n := range []int{capn - 1, capn, capn + 1, capn + 2, capn * 3} {
				if n > 5200 {
					n = 5200 + r.Intn(50)
				}
				add("qr-v40", Req{Fam: "qr", S: qrForced(r, m, n), I: []int64{int64(lvl), qrModeOfInternal(m)}})
				add("qr-v40-auto", Req{Fam: "qr", S: qrForced(r, m, n), I: []int64{int64(lvl), 0}})
			}
		}
	}
	// far beyond capacity: sizes at which 16- and 32-bit arithmetic would wrap
	for _, n := range []int{8190, 8191, 8192, 8193, 8200, 10000, 16383, 16384, 16390, 19662, 20000, 32768, 40000, 65536, 70000, 131072} {
		for lvl := int64(0); lvl < 4; lvl += 3 {
			add("qr-huge", Req{Fam: "qr", S: randBytes(r, n, highAB), I: []int64{lvl, 3}})
			add("qr-huge", Req{Fam: "qr", S: randBytes(r, n, highAB), I: []int64{lvl, 0}})
			add("qr-huge", Req{Fam: "qr", S: randBytes(r, n*12/5, digitsAB), I: []int64{lvl, 1}})
			add("qr-huge", Req{Fam: "qr", S: randBytes(r, n*16/11, qrAlnumAB), I: []int64{lvl, 2}})
			add("qr-huge", Req{Fam: "qr", S: randBytes(r, n*12/5, digitsAB), I: []int64{lvl, 0}})
		}
		add("dm-huge", Req{Fam: "datamatrix", S: randBytes(r, n, upperAB)})
		add("dm-huge", Req{Fam: "datamatrix", S: randBytes(r, n/2, highAB)})
		if n <= 20000 {
			add("aztec-huge", Req{Fam: "aztec", S: randBytes(r, n, highAB), I: []int64{int64(r.Intn(50)), int64(pick(r, []int{0, 32, -4}))}})
		}
	}
	// runes above U+00FF whose truncation to a byte is a valid character of the symbology
	for _, base := range []rune{0x100, 0x300, 0x1000, 0x10000} {
		for _, low := range "0159AZ-$: %+./" {
			ru := string(base + low)
			add("truncating-rune", Req{Fam: "qr", S: []byte("AB" + ru + "12"), I: []int64{1, 2}})
			add("truncating-rune", Req{Fam: "qr", S: []byte("12" + ru + "34"), I: []int64{1, 1}})
			add("truncating-rune", Req{Fam: "code39", S: []byte("AB" + ru), I: []int64{1, 0}})
			add("truncating-rune", Req{Fam: "code39", S: []byte("ab" + ru), I: []int64{0, 1}})
			add("truncating-rune", Req{Fam: "code93", S: []byte("AB" + ru), I: []int64{1, 0}})
			add("truncating-rune", Req{Fam: "code93", S: []byte("ab" + ru), I: []int64{0, 1}})
			add("truncating-rune", Req{Fam: "code128", S: []byte("ab" + ru + "12")})
			add("truncating-rune", Req{Fam: "codabar", S: []byte("A1" + ru + "2B")})
			add("truncating-rune", Req{Fam: "ean", S: []byte("123456" + ru)[:7]})
			add("truncating-rune", Req{Fam: "ean", S: []byte("12345" + ru)})
			add("truncating-rune", Req{Fam: "2of5", S: []byte("1" + ru), I: []int64{1}})
			add("truncating-rune", Req{Fam: "2of5", S: []byte("12" + ru), I: []int64{0}})
		}
	}
	nlow := 40
	if tier == "thorough" {
		nlow = 480
	}
	for i := 0; i < nlow; i++ {
		v, lvl, m := 1+r.Intn(39), r.Intn(4), pick(r, []int{1, 2, 4})
		capn := refdec.QRCapacity(m, v, lvl)
		for _, n := range []int{capn, capn + 1} {
			add("qr-lower-versions", Req{Fam: "qr", S: qrForced(r, m, n), I: []int64{int64(lvl), qrModeOfInternal(m)}})
		}
	}
	// wrong-class characters at every position class for QR numeric / alphanumeric
	for _, bad := range []string{"a", " ", "+", "-", ".", "\x00", "é", "\xff", "A"} {
		for _, pos := range []int{0, 1, 2, 3, 4, 5, 30, 59} {
			d := string(randBytes(r, 60, digitsAB))
			add("qr-numeric-bad-char", Req{Fam: "qr", S: []byte(d[:pos] + bad + d[pos:]), I: []int64{int64(r.Intn(4)), 1}})
			if bad != "A" && bad != " " && bad != "+" && bad != "-" && bad != "." {
				a := string(randBytes(r, 60, qrAlnumAB))
				add("qr-alnum-bad-char", Req{Fam: "qr", S: []byte(a[:pos] + bad + a[pos:]), I: []int64{int64(r.Intn(4)), 2}})
			}
		}
	}
	// DataMatrix around 1558 codewords per class
	for cl := 0; cl < 5; cl++ {
		for _, n := range []int{1556, 1557, 1558, 1559, 1560, 1600, 3000} {
			add("dm-capacity", Req{Fam: "datamatrix", S: dmContent(r, cl, n)})
		}
	}
	// Code 128 length rule
	for _, n := range []int{1, 2, 79, 80, 81, 82, 160, 500} {
		for _, ab := range [][]byte{digitsAB, lowerAB, upperAB, byteRange(0, 31)} {
			add("c128-length", Req{Fam: "code128", S: randBytes(r, n, ab)})
			add("c128-length", Req{Fam: "code128nocs", S: randBytes(r, n, ab)})
		}
		rs := make([]rune, n)
		for i := range rs {
			rs[i] = refdec.FNC1 + rune(r.Intn(4))
		}
		add("c128-length-fnc", Req{Fam: "code128", S: []byte(string(rs))})
		add("c128-length-fnc", Req{Fam: "code128nocs", S: []byte(string(rs))})
		if n >= 2 {
			mix := append([]rune{refdec.FNC1 + rune(r.Intn(4))}, []rune(string(randBytes(r, n-1, upperAB)))...)
			add("c128-length-fnc", Req{Fam: "code128", S: []byte(string(mix))})
			add("c128-length-fnc", Req{Fam: "code128nocs", S: []byte(string(mix))})
		}
	}
	// PDF417 forced payloads around the 900 / 928 totals for every level
	for lvl := int64(0); lvl < 9; lvl++ {
		k := 2 << uint(lvl)
		for _, tot := range []int{890, 899, 900, 901, 915, 928, 929, 930, 960, 1200} {
			n := tot - 1 - k // data codewords wanted
			if n < 1 {
				continue
			}
			add("pdf-capacity-upper", Req{Fam: "pdf417", S: randBytes(r, 2*n, upperAB), I: []int64{lvl}})
			add("pdf-capacity-upper-odd", Req{Fam: "pdf417", S: randBytes(r, 2*n-1, upperAB), I: []int64{lvl}})
			if nb := (n - 1) / 5 * 6; nb >= 6 {
				add("pdf-capacity-bytes", Req{Fam: "pdf417", S: randBytes(r, nb, highAB), I: []int64{lvl}})
			}
			nd := (n - 1) / 15 * 44
			if nd >= 44 {
				add("pdf-capacity-digits", Req{Fam: "pdf417", S: randBytes(r, nd, digitsAB), I: []int64{lvl}})
			}
		}
	}
	add("pdf-over", Req{Fam: "pdf417", S: randBytes(r, 5000, highAB), I: []int64{0}})
	add("pdf-over", Req{Fam: "pdf417", S: randBytes(r, 5000, printAB), I: []int64{8}})
	// 1D lengths 0/1/long
	for _, n := range []int{0, 1, 2, 3, 100, 1000, 4096, 4097, 4098, 5039, 5040, 5041, 10000, 20000} {
		add("1d-length", Req{Fam: "codabar", S: append(append([]byte("A"), randBytes(r, n, []byte("0123456789-$:/.+"))...), 'B')})
		add("1d-length", Req{Fam: "2of5", S: randBytes(r, n, digitsAB), I: []int64{0}})
		add("1d-length", Req{Fam: "2of5", S: randBytes(r, n, digitsAB), I: []int64{1}})
		add("1d-length", Req{Fam: "code39", S: randBytes(r, n, []byte(refC39)), I: []int64{1, 0}})
		add("1d-length", Req{Fam: "code93", S: randBytes(r, n, asciiAB), I: []int64{1, 1}})
		add("1d-length", Req{Fam: "ean", S: randBytes(r, n, digitsAB)})
	}
	// representability does not depend on the colour scheme: degenerate schemes
	for i := 0; i < 20*len(families); i++ {
		q := randomValidReq(r, families[i%len(families)], 0)
		q.Scheme = degenerateSchemeBase + int64(i/len(families))
		us = append(us, q.Unit("accept", "degenerate-scheme"))
	}
	// random valid requests: everything must be accepted
	nv := 2000
	if tier == "thorough" {
		nv = 20000
	}
	for i := 0; i < nv; i++ {
		add("random-valid", randomValidReq(r, families[i%len(families)], -1))
	}
	return us
}

func (p c10) Exec(c *fw.Ctx, u *fw.Unit) {
	req := reqOfUnit(u)
	c.Eval()
	inner := req.String()
	c.Step(func() string { return inner })
	o := req.call()
	entry := req.entryName()
	c.Cover("entry_point", entry)
	if o.panic != nil {
		key := "panic:" + entry
		if req.Fam == "aztec" && req.int(1) < -1<<50 {
			key += "/huge-negative-layers"
		}
		c.Violation(key, fmt.Sprintf("panic: %v", o.panic), inner, o.stack)
		return
	}
	accepted := wellFormed(c, entry, inner, &o)
	if !accepted && o.err == nil {
		return // contract violation already reported
	}
	if !accepted {
		retainErr(c, req.Fam, o.err, inner)
	}
	exp, why := expectation(req)
	switch exp {
	case expDontCare:
		c.Cover("region", "dont-care")
		return
	case expAccept:
		if !accepted {
			c.Violation("accept/"+req.Fam+"/rejected-representable", fmt.Sprintf("must accept (%s) but returned error: %v", why, o.err), inner, "")
			return
		}
		c.Cover("region", "must-accept")
	case expBeyond:
		c.Cover("region", "beyond-implemented-compaction")
		if accepted {
			bc := o.bc
			if req.Scheme >= 0 {
				// decode the plain black-on-white rendering of the same request
				plain := req
				plain.Scheme = -1
				if o2 := plain.call(); o2.panic == nil && o2.err == nil && o2.bc != nil {
					bc = o2.bc
				}
			}
			got, err := decodedPayload(req, bc)
			if err != nil || !bytes.Equal(got, req.S) {
				c.Violation("accept/"+req.Fam+"/accepted-but-symbol-wrong", fmt.Sprintf("accepted content beyond the implemented compaction (%s) but the symbol does not decode to it: %v", why, err), inner, "")
			}
			return
		}
		return
	case expReject:
		if accepted {
			c.Violation("accept/"+req.Fam+"/accepted-unrepresentable", fmt.Sprintf("must reject (%s) but returned a barcode", why), inner, "")
			return
		}
		c.Cover("region", "must-reject")
	}
	c.Nontrivial(req.Key())
	c.Cover("tag", u.Tag)
	c.Cover("family_region", fmt.Sprintf("%s:%d", req.Fam, exp))
	if c.Rand().Intn(150) == 0 {
		c.Sample(map[string]any{"request": req.String(), "expected": []string{"dont-care", "accept", "reject"}[exp], "why": why})
	}
}

// aztecStuffedLen: length after bit stuffing of the minimal binary-shift encoding of
// an all->=0x80 (or all-equal-byte) payload.
func aztecStuffedLen(b []byte, ws int) int {
	var bits []bool
	add := func(v, k int) {
		for i := k - 1; i >= 0; i-- {
			bits = append(bits, v>>uint(i)&1 == 1)
		}
	}
	rest := b
	for len(rest) > 0 {
		k := len(rest)
		if k > 2078 {
			k = 2078
		}
		switch {
		case k <= 31:
			add(31, 5)
			add(k, 5)
			for _, c := range rest[:k] {
				add(int(c), 8)
			}
		case k <= 62:
			add(31, 5)
			add(31, 5)
			for _, c := range rest[:31] {
				add(int(c), 8)
			}
			add(31, 5)
			add(k-31, 5)
			for _, c := range rest[31:k] {
				add(int(c), 8)
			}
		default:
			add(31, 5)
			add(0, 5)
			add(k-31, 11)
			for _, c := range rest[:k] {
				add(int(c), 8)
			}
		}
		rest = rest[k:]
	}
	// stuffing: after ws-1 equal bits a complementary bit is inserted
	n := 0
	for i := 0; i < len(bits); {
		same := true
		for j := 1; j < ws-1 && i+j < len(bits); j++ {
			if bits[i+j] != bits[i] {
				same = false
				break
			}
		}
		if same && i+ws-1 <= len(bits) {
			i += ws - 1
		} else {
			i += ws
		}
		n += ws
	}
	return n
}

// aztecUpperStuffed: exact stuffed length (bits) of a payload of upper-case letters
// and spaces encoded in Upper mode, or -1 if the payload has other characters.
func aztecUpperStuffed(b []byte, ws int) int {
	if len(b) == 0 {
		return -1
	}
	var bits []bool
	for _, c := range b {
		v := 0
		switch {
		case c == ' ':
			v = 1
		case c >= 'A' && c <= 'Z':
			v = int(c-'A') + 2
		default:
			return -1
		}
		for i := 4; i >= 0; i-- {
			bits = append(bits, v>>uint(i)&1 == 1)
		}
	}
	n := len(bits)
	words := 0
	for i := 0; i < n; {
		allOne, allZero := true, true
		for j := 0; j < ws-1; j++ {
			bit := true // padding with ones beyond the end
			if i+j < n {
				bit = bits[i+j]
			}
			if bit {
				allZero = false
			} else {
				allOne = false
			}
		}
		if allOne || allZero {
			i += ws - 1
		} else {
			i += ws
		}
		words++
	}
	return words * ws
}

// azTextClass returns n bytes of one kind of text (prefix-stable for a given seed).
func azTextClass(seed int64, class, n int) []byte {
	r := rand.New(rand.NewSource(seed*31 + int64(class)))
	var b []byte
	for len(b) < n+2 {
		switch class {
		case 0: // two-character Punct codes only
			b = append(b, pick(r, azPairs)...)
		case 1:
			b = append(b, pick(r, lowerAB))
		case 2:
			b = append(b, pick(r, []byte("0123456789,. ")))
		case 3:
			b = append(b, pick(r, azPunctChars))
		case 4:
			b = append(b, pick(r, azMixedChars))
		case 5: // prose: capitalised words, commas, full stops, line ends
			b = append(b, pick(r, upperAB))
			for k := r.Intn(8); k > 0; k-- {
				b = append(b, pick(r, lowerAB))
			}
			b = append(b, pick(r, []string{" ", ", ", ". ", ": ", "\r\n", " ", " "})...)
		case 6: // records: digits with separators and pairs
			for k := 1 + r.Intn(6); k > 0; k-- {
				b = append(b, pick(r, digitsAB))
			}
			b = append(b, pick(r, []string{", ", ". ", ": ", "\r\n", ",", ".", " "})...)
		default:
			b = append(b, azWalk(r, 8, 3)...)
		}
	}
	return b[:n]
}

// azTextCapacityReqs: for each kind of text and a range of (percentage, layers), the
// longest prefix the acceptance predicate marks as certainly representable, shorter
// ones, and the shortest certainly not representable.
func azTextCapacityReqs(r *rand.Rand, dense bool) []Req {
	var out []Req
	params := [][2]int64{{0, 0}, {23, 0}, {33, 0}, {10, 32}, {33, -4}, {23, 10}, {5, 22}, {50, 0}, {1, 31}}
	if !dense {
		params = params[:5]
	}
	seed := r.Int63()
	for class := 0; class < 8; class++ {
		for _, pl := range params {
			verdict := func(n int) int {
				e, _ := expectation(Req{Fam: "aztec", S: azTextClass(seed, class, n), I: []int64{pl[0], pl[1]}})
				return e
			}
			lo, hi := 0, 9000 // largest n in [0,9000] with expAccept, assuming monotone up to noise
			for lo < hi {
				mid := (lo + hi + 1) / 2
				if verdict(mid) == expAccept {
					lo = mid
				} else {
					hi = mid - 1
				}
			}
			for _, n := range []int{lo, lo - 1, lo - 2, lo - 9, lo * 9 / 10, lo / 2} {
				if n >= 1 {
					out = append(out, Req{Fam: "aztec", S: azTextClass(seed, class, n), I: []int64{pl[0], pl[1]}})
				}
			}
			rl, rh := lo, 20000
			for rl < rh {
				mid := (rl + rh) / 2
				if verdict(mid) == expReject {
					rh = mid
				} else {
					rl = mid + 1
				}
			}
			out = append(out, Req{Fam: "aztec", S: azTextClass(seed, class, rl), I: []int64{pl[0], pl[1]}}, Req{Fam: "aztec", S: azTextClass(seed, class, (lo+rl)/2), I: []int64{pl[0], pl[1]}})
		}
	}
	return out
}
