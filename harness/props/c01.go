package props

import (
	"bytes"
	"fmt"
	"math/rand"

	"verifharness/fw"
	"verifharness/refdec"
)

// C01 — QR Code: every accepted content decodes back to exactly that content.
type c01 struct{}

func init() { fw.Register(c01{}) }

func (c01) ID() string { return "C01" }
func (c01) Rule() string {
	return "contents of forced encoded length (all digits / all alphanumeric / bytes) at cap-1, cap, cap+1 of the (version, level, mode) capacity boundaries (all 480 in thorough, a seed-chosen subset plus one symbol per version x level in quick), random contents over mixed classes in all four modes, Auto with digit-only / alphanumeric-only / mixed / sign-prefixed / space / invalid UTF-8 / multi-byte inputs, empty content; every accepted symbol is read by an independent ISO 18004 reader (function patterns, both format and version copies with BCH, unmasking, zig-zag, de-interleave by an independent block table, all RS syndromes, segments, terminator, pad codewords) and must yield the content bytes; non-trivial = accepted and fully decoded, distinct by (content, level, mode)"
}
func (c01) Assumptions() []string {
	return []string{
		"reference reader and its tables (block layout per Nayuki/ISO Table 9, alignment formula, BCH generators, mask predicates) in refdec/qr.go",
		"don't-care: which mask or segmentation is chosen; Kanji/ECI segments count as unsupported (inconclusive), never emitted by this library",
	}
}

// forced content of n characters whose encoded length in the mode is determined.
func qrForced(r *rand.Rand, mode int, n int) []byte {
	switch mode {
	case 1:
		b := randBytes(r, n, digitsAB)
		return b
	case 2:
		b := randBytes(r, n, qrAlnumAB)
		if n > 0 {
			b[r.Intn(n)] = pick(r, []byte("ABCXYZ $%*+-./:")) // not numeric
		}
		return b
	default:
		b := randBytes(r, n, allAB)
		if n > 0 {
			b[r.Intn(n)] = byte(128 + r.Intn(128)) // not alphanumeric
		}
		return b
	}
}

func qrModeOfInternal(m int) int64 { // internal mode indicator -> library Encoding constant
	switch m {
	case 1:
		return 1
	case 2:
		return 2
	}
	return 3
}

func (c01) Gen(tier string, seed int64) []fw.Unit {
	r := rngFor(seed, "C01")
	var us []fw.Unit
	add := func(tag string, s []byte, lvl, mode int64) {
		us = append(us, Req{Fam: "qr", S: s, I: []int64{lvl, mode}, Scheme: -1}.Unit("qr", tag))
	}
	modes := []int{1, 2, 4}
	// one symbol per version x level (mode rotating), exactly at capacity
	for v := 1; v <= 40; v++ {
		for lvl := 0; lvl < 4; lvl++ {
			m := modes[(v+lvl)%3]
			capn := refdec.QRCapacity(m, v, lvl)
			libMode := qrModeOfInternal(m)
			if r.Intn(2) == 0 {
				libMode = 0 // Auto must pick the same single mode
			}
			add("at-capacity", qrForced(r, m, capn), int64(lvl), libMode)
		}
	}
	// capacity boundaries from both sides
	type bnd struct{ v, lvl, m int }
	var all []bnd
	for v := 1; v <= 40; v++ {
		for lvl := 0; lvl < 4; lvl++ {
			for _, m := range modes {
				all = append(all, bnd{v, lvl, m})
			}
		}
	}
	nb := 160
	if tier == "thorough" {
		nb = len(all)
	} else {
		r.Shuffle(len(all), func(i, j int) { all[i], all[j] = all[j], all[i] })
	}
	for _, b := range all[:nb] {
		capn := refdec.QRCapacity(b.m, b.v, b.lvl)
		for _, n := range []int{capn - 1, capn, capn + 1} {
			if n < 0 {
				continue
			}
			libMode := qrModeOfInternal(b.m)
			if r.Intn(3) == 0 {
				libMode = 0
			}
			add("boundary", qrForced(r, b.m, n), int64(b.lvl), libMode)
		}
	}
	// random contents
	nr := 600
	if tier == "thorough" {
		nr = 6000
	}
	classes := [][]byte{digitsAB, qrAlnumAB, printAB, allAB, highAB, upperAB}
	for i := 0; i < nr; i++ {
		n := r.Intn(40)
		switch r.Intn(10) {
		case 0:
			n = 40 + r.Intn(400)
		case 1:
			n = 400 + r.Intn(1500)
		}
		mode := int64(r.Intn(4))
		var s []byte
		switch mode {
		case 1:
			s = randBytes(r, n, digitsAB)
		case 2:
			s = randBytes(r, n, qrAlnumAB)
		default:
			// class runs
			for len(s) < n {
				s = append(s, randBytes(r, 1+r.Intn(12), pick(r, classes))...)
			}
			s = s[:n]
		}
		add("random", s, int64(r.Intn(4)), mode)
	}
	// hostile / special
	special := []string{"", "0", "+12", "-0", "-1", "+", "-", "1 2", " 12", "12 ", "1.5", "1e3", "0x10", "١٢٣", "１２３", "12\n", "\x0012",
		"a", "A", "$%*+-./:", "HELLO WORLD", "hello world", "\xff", "\xc3", "\xc3\x28", "é", "€", "𝟙", "A\x80", "Z:", "z:",
		"000", "0000000", "00000000", "999", "1000", "01", "001", "+00", "-00", "+1234567", "12+", "123+45", "123-45"}
	for _, s := range special {
		for mode := int64(0); mode < 4; mode++ {
			add("special", []byte(s), int64(r.Intn(4)), mode)
		}
	}
	us = append(us, collideUnits(r, "qr", "qr", printAB, 24, 1, 0)...)
	us = append(us, collideUnits(r, "qr", "qr", digitsAB, 30, 0, 1)...)
	lim := 250
	if tier == "thorough" {
		lim = 0
	}
	us = append(us, qrPairUnits(r, "qrpair:qr", lim)...)
	// runes above U+00FF whose low byte is a character of the alphanumeric set
	for _, base := range []rune{0x100, 0x200, 0x1000, 0x10000} {
		for _, low := range "0A9Z $%*+-./:" {
			s := "AB" + string(base+low) + "12"
			for mode := int64(0); mode < 4; mode++ {
				add("truncating-runes", []byte(s), int64(r.Intn(4)), mode)
			}
			add("truncating-runes", []byte("GDA"+string(base+low)+"SK 2024"), int64(r.Intn(4)), 0)
			add("truncating-runes", []byte("123"+string(base+low)), int64(r.Intn(4)), 0)
		}
	}
	for _, base := range []string{"hello", "HELLO 123", "12345", "https://example.org/x?y=1"} {
		for _, d := range decorate([]byte(base)) {
			add("decorated", d, int64(r.Intn(4)), 0)
			add("decorated", d, int64(r.Intn(4)), 3)
		}
	}
	// value-directed: version 1-L byte contents whose check codewords begin with one,
	// two or three zero bytes (found with the reference RS arithmetic)
	{
		rr := rngFor(seed, "C01rszero")
		found := [4]int{}
		want := [4]int{0, 12, 6, 1}
		for tries := 0; tries < 3000000 && (found[1] < want[1] || found[2] < want[2]); tries++ {
			ct := randBytes(rr, 8+rr.Intn(9), printAB)
			ct[0] = byte(128 + rr.Intn(100)) // keep Auto in byte mode
			rem := refdec.GF256Q.RSCheck(refdec.QRByteV1L(ct), 0, 7)
			z := 0
			for z < 3 && rem[z] == 0 {
				z++
			}
			if z >= 1 && found[z] < want[z] {
				found[z]++
				add(fmt.Sprintf("rs-check-leading-zeros-%d", z), ct, 0, 3)
			}
		}
	}
	for _, fd := range foreignDigitStrings() {
		add("foreign-digits", []byte(fd), int64(r.Intn(4)), 0)
		add("foreign-digits", []byte(fd), int64(r.Intn(4)), 3)
	}
	for _, sp := range structuredPayloads() {
		add("structured", sp, int64(r.Intn(4)), int64(3*r.Intn(2)))
	}
	// mask hunting: short contents varied until all 8 masks tend to appear
	for i := 0; i < 400; i++ {
		add("mask-variety", randBytes(r, 1+r.Intn(14), pick(r, classes)), int64(i%4), int64(r.Intn(4)))
	}
	return us
}

// qrObserve runs the request and the reference reader; it reports violations under
// the given key prefix and returns the decode result for further oracles.
func qrObserve(c *fw.Ctx, req Req) (*refdec.QRResult, bool) {
	inner := req.String()
	c.Step(func() string { return inner })
	if c.Res().Evals%5 == 0 {
		poison("qr", false)
	}
	o := req.call()
	if !wellFormed(c, req.entryName(), inner, &o) {
		if o.err != nil {
			c.Cover("outcome", "rejected")
		}
		return nil, false
	}
	c.Cover("outcome", "accepted")
	retainObserve(c, "qr", o.bc, inner, 3)
	g, err := grid2D(o.bc)
	if err != nil {
		c.Violation("qr/image", err.Error(), inner, "")
		return nil, false
	}
	res, err := refdec.DecodeQR(g)
	if err != nil {
		if refdec.RuleOf(err) == "qr-unsupported-segment" {
			c.Inconclusive("unsupported segment in " + inner)
			return nil, false
		}
		c.Violation("qr/"+refdec.RuleOf(err), err.Error(), inner, "")
		return nil, false
	}
	return res, true
}

func (p c01) Exec(c *fw.Ctx, u *fw.Unit) {
	if isCollide(u) {
		for _, q := range splitCollide(u) {
			p.one(c, q, u.Tag)
		}
		return
	}
	if u.Fn == "qrpair:qr" {
		for _, q := range qrPairReqs(u) {
			p.one(c, q, u.Tag)
		}
		return
	}
	p.one(c, reqOfUnit(u), u.Tag)
}

func (p c01) one(c *fw.Ctx, req Req, tag string) {
	c.Eval()
	res, ok := qrObserve(c, req)
	if !ok {
		return
	}
	inner := req.String()
	if !bytes.Equal(res.Payload, req.S) {
		modeName := []string{"Auto", "Numeric", "AlphaNumeric", "Unicode"}[req.int(1)&3]
		cls := "other"
		if len(req.S) > 0 && (req.S[0] == '+' || req.S[0] == '-') {
			cls = "sign"
		}
		c.Violation(fmt.Sprintf("qr/roundtrip/%s/%s", modeName, cls), fmt.Sprintf("symbol (v%d mask %d) decodes to %s", res.Version, res.Mask, short(string(res.Payload))), inner, "")
		return
	}
	c.Nontrivial(req.Key())
	c.CoverN("version", res.Version)
	c.Cover("layout(version,level)", fmt.Sprintf("%d-%c", res.Version, "LMQH"[res.Level]))
	c.CoverN("mask", res.Mask)
	c.Cover("format_word(level,mask)", fmt.Sprintf("%c%d", "LMQH"[res.Level], res.Mask))
	for _, s := range res.Segments {
		c.CoverN("segment_mode", s.Mode)
		cls := 0
		if res.Version >= 10 {
			cls = 1
		}
		if res.Version >= 27 {
			cls = 2
		}
		c.Cover("count_indicator_class", fmt.Sprintf("mode%d/class%d", s.Mode, cls))
	}
	c.CoverN("remainder_bits", res.RemainderBits)
	c.CoverN("terminator_len", res.TerminatorLen)
	c.Cover("tag", tag)
	if res.PadCodewords == 0 {
		c.Cover("pad", "none")
	} else if res.PadCodewords%2 == 1 {
		c.Cover("pad", "odd")
	} else {
		c.Cover("pad", "even")
	}
	if c.Rand().Intn(40) == 0 {
		c.Sample(map[string]any{"content": short(string(req.S)), "len": len(req.S), "level": req.int(0), "mode": req.int(1), "version": res.Version, "mask": res.Mask, "blocks": res.NumBlocks})
	}
}

// qrBits is the number of content bits of n characters in the (internal) mode.
func qrBits(mode, n int) int {
	switch mode {
	case 1:
		b := n / 3 * 10
		if n%3 == 1 {
			b += 4
		} else if n%3 == 2 {
			b += 7
		}
		return b
	case 2:
		return n/2*11 + n%2*6
	}
	return 8 * n
}

type qrPair struct {
	lvl       int
	modeA, nA int
	modeB, nB int
}

// qrEqualBitPairs: two contents in different modes with exactly the same number of
// content bits, around every version boundary.  State that is keyed by the bit count
// but not by the mode (or level) shows when they are encoded back to back.
func qrEqualBitPairs() []qrPair {
	var out []qrPair
	modes := []int{1, 2, 4}
	perChar := map[int]float64{1: 10.0 / 3, 2: 5.5, 4: 8}
	for lvl := 0; lvl < 4; lvl++ {
		for v := 1; v <= 40; v++ {
			for _, mx := range modes {
				for _, d := range []int{-1, 0, 1} {
					nx := refdec.QRCapacity(mx, v, lvl) + d
					if nx < 1 {
						continue
					}
					b := qrBits(mx, nx)
					for _, my := range modes {
						if my == mx {
							continue
						}
						guess := int(float64(b) / perChar[my])
						for ny := guess - 3; ny <= guess+3; ny++ {
							if ny >= 1 && qrBits(my, ny) == b {
								out = append(out, qrPair{lvl, mx, nx, my, ny})
							}
						}
					}
				}
			}
		}
	}
	return out
}

func qrPairUnits(r *rand.Rand, fn string, limit int) []fw.Unit {
	ps := qrEqualBitPairs()
	r.Shuffle(len(ps), func(i, j int) { ps[i], ps[j] = ps[j], ps[i] })
	if limit > 0 && len(ps) > limit {
		ps = ps[:limit]
	}
	var us []fw.Unit
	for _, p := range ps {
		us = append(us, fw.U(fn, nil, "equal-bit-count-pair", int64(p.lvl), int64(p.modeA), int64(p.nA), int64(p.modeB), int64(p.nB), r.Int63()))
	}
	// version-step pairs: a content one character beyond a version's capacity in one
	// mode (next version) back to back, in both orders, with a content that exactly
	// fills that version in another (or the same) mode — the second call must not
	// inherit anything from the first one's version search
	var steps []qrPair
	modes := []int{1, 2, 4}
	for lvl := 0; lvl < 4; lvl++ {
		for v := 1; v < 40; v++ {
			for _, ma := range modes {
				for _, mb := range modes {
					over, fill := qrPair{lvl, ma, refdec.QRCapacity(ma, v, lvl) + 1, mb, refdec.QRCapacity(mb, v, lvl)}, qrPair{}
					fill = qrPair{lvl, over.modeB, over.nB, over.modeA, over.nA}
					steps = append(steps, over, fill)
				}
			}
		}
	}
	r.Shuffle(len(steps), func(i, j int) { steps[i], steps[j] = steps[j], steps[i] })
	if limit > 0 && len(steps) > limit+limit/2 {
		steps = steps[:limit+limit/2]
	}
	for _, p := range steps {
		us = append(us, fw.U(fn, nil, "version-step-pair", int64(p.lvl), int64(p.modeA), int64(p.nA), int64(p.modeB), int64(p.nB), r.Int63()))
	}
	return us
}

// qrPairReqs expands a pair unit into its two requests.
func qrPairReqs(u *fw.Unit) [2]Req {
	r := rngFor(u.Int(5), "qrpair")
	mk := func(mode, n int) Req {
		lm := qrModeOfInternal(mode)
		if r.Intn(3) == 0 {
			lm = 0
		}
		return Req{Fam: "qr", S: qrForced(r, mode, n), I: []int64{u.Int(0), lm}, Scheme: -1}
	}
	return [2]Req{mk(int(u.Int(1)), int(u.Int(2))), mk(int(u.Int(3)), int(u.Int(4)))}
}
