package props

import (
	"encoding/hex"
	"fmt"
	"math/rand"
	"unicode/utf8"

	"verifharness/fw"
	"verifharness/refdec"
)

// C05 — Code 128: every accepted text decodes back to exactly that text.
type c05 struct{}

func init() { fw.Register(c05{}) }

func (c05) ID() string { return "C05" }
func (c05) Rule() string {
	return "contents built from six character classes (digit, A∩B printable, lower case, control, FNC1, FNC2-4): all class sequences up to length 5 (quick) / 7 (thorough) with two random representatives each, digit runs of every length 1..12 at start/middle/end with FNC1 at even and odd offsets, lengths 1/79/80/81, random long mixes; both checksum variants; the symbol is read by an independent Code 128 decoder (107-pattern table from ISO 15417, any code-set path accepted) and must equal the content; non-trivial = accepted and fully decoded, distinct by (content, variant)"
}
func (c05) Assumptions() []string {
	return []string{"reference pattern table and code-set semantics in refdec/onedim.go (ISO/IEC 15417); FNC1-4 are represented by U+00F1..U+00F4 as in the library's API"}
}

const c128Classes = 6

func c128Rep(r *rand.Rand, class int) rune {
	switch class {
	case 0:
		return rune('0' + r.Intn(10))
	case 1: // common to A and B, not a digit
		for {
			c := rune(32 + r.Intn(64))
			if c < '0' || c > '9' {
				return c
			}
		}
	case 2:
		return rune(96 + r.Intn(32))
	case 3:
		return rune(r.Intn(32))
	case 4:
		return refdec.FNC1
	default:
		return rune(refdec.FNC2 + rune(r.Intn(3)))
	}
}

func (c05) Gen(tier string, seed int64) []fw.Unit {
	depth := int64(6)
	if tier == "thorough" {
		depth = 8
	}
	var us []fw.Unit
	for a := 0; a < c128Classes; a++ {
		for b := 0; b < c128Classes; b++ {
			us = append(us, fw.U("c128.classes", nil, "class-sequences", int64(a), int64(b), depth))
		}
	}
	us = append(us, fw.U("c128.alternate", nil, "alternations", 0))
	us = append(us, fw.U("c128.decorated", nil, "decorated", 0))
	us = append(us, fw.U("c128.foreign", nil, "foreign-digits", 0))
	us = append(us, fw.U("c128.collide", nil, "hash-collision-pairs", 0))
	us = append(us, fw.U("c128.digitruns", nil, "digit-runs", 0))
	us = append(us, fw.U("c128.digitruns", nil, "digit-runs", 1))
	r := rngFor(seed, "C05")
	n := 120
	if tier == "thorough" {
		n = 1200
	}
	for i := 0; i < n; i++ {
		us = append(us, fw.U("c128.random", nil, "random", r.Int63(), 500))
	}
	return us
}

func c128Check(c *fw.Ctx, content string, nocs bool) {
	c.Eval()
	fam := "code128"
	if nocs {
		fam = "code128nocs"
	}
	req := Req{Fam: fam, S: []byte(content), Scheme: -1}
	inner := req.String()
	c.Step(func() string { return inner })
	if c.Res().Evals%9 == 0 {
		poison(fam, false)
	}
	o := req.call()
	if !wellFormed(c, req.entryName(), inner, &o) {
		if o.panic == nil && o.err != nil {
			n := utf8.RuneCountInString(content)
			if n >= 1 && n <= 80 && c128Representable(content) {
				c.Violation("c128/rejected", "representable content rejected: "+o.err.Error(), inner, "")
			}
			c.Cover("outcome", "rejected")
		}
		return
	}
	retainObserve(c, "code128", o.bc, inner, 3)
	bits, err := row1D(o.bc)
	if err != nil {
		c.Violation("c128/image", err.Error(), inner, "")
		return
	}
	res, err := refdec.DecodeCode128(bits, !nocs)
	if err != nil {
		c.Violation("c128/"+refdec.RuleOf(err), err.Error(), inner, refdec.BitString(bits))
		return
	}
	if res.Text != content {
		c.Violation("c128/roundtrip", fmt.Sprintf("decodes to %q", res.Text), inner, fmt.Sprint(res.Values))
		return
	}
	c.Nontrivial(content, nocs)
	c.Cover("outcome", "accepted")
	c.Cover("start", string(rune('A'+res.Values[0]-103)))
	prev := byte(0)
	for i, s := range res.Sets {
		if prev != 0 && s != prev {
			c.Cover("set_transition", string([]byte{prev, '>', s}))
		}
		prev = s
		c.CoverN("pattern_value", res.Values[i+1])
	}
	c.CoverN("pattern_value", res.Values[0])
	if !nocs {
		c.CoverN("pattern_value", res.Check)
	}
	if c.Res().Evals%5003 == 0 {
		c.Sample(map[string]any{"content": content, "variant": fam, "values": res.Values, "check": res.Check})
	}
}

func c128Representable(s string) bool {
	for _, r := range s {
		if r > 127 && (r < refdec.FNC1 || r > refdec.FNC4) {
			return false
		}
		if r == utf8.RuneError {
			return false
		}
	}
	return true
}

func (p c05) Exec(c *fw.Ctx, u *fw.Unit) {
	switch u.Fn {
	case "c128.classes":
		a, b, depth := int(u.Int(0)), int(u.Int(1)), int(u.Int(2))
		r := rngFor(c.Seed, fmt.Sprintf("c128cls%d%d", a, b))
		seq := make([]int, depth)
		seq[0], seq[1] = a, b
		emit := func(l int) {
			for rep := 0; rep < 2; rep++ {
				rs := make([]rune, l)
				for i := 0; i < l; i++ {
					rs[i] = c128Rep(r, seq[i])
				}
				s := string(rs)
				c128Check(c, s, false)
				c128Check(c, s, true)
			}
		}
		if b == 0 {
			emit(1) // length-1 contents once per first class
		}
		var rec func(pos int)
		rec = func(pos int) {
			emit(pos)
			if pos == depth {
				return
			}
			for k := 0; k < c128Classes; k++ {
				seq[pos] = k
				rec(pos + 1)
			}
		}
		rec(2)
		c.Cover("class_sequences_exhaustive_to_length", fmt.Sprint(depth))
	case "c128.digitruns":
		nocs := u.Int(0) == 1
		r := rngFor(c.Seed, "c128dr")
		for n := 1; n <= 12; n++ {
			for _, pre := range []string{"", "a", "A", "\x01", "ab"} {
				for _, post := range []string{"", "a", "A", "\x01"} {
					d := string(randBytes(r, n, digitsAB))
					c128Check(c, pre+d+post, nocs)
					for off := 0; off <= n; off++ {
						c128Check(c, pre+d[:off]+string(refdec.FNC1)+d[off:]+post, nocs)
					}
				}
			}
		}
		// length boundaries
		for _, n := range []int{1, 2, 79, 80, 81, 160} {
			for _, ab := range [][]byte{digitsAB, lowerAB, upperAB, byteRange(0, 31)} {
				c128Check(c, string(randBytes(r, n, ab)), nocs)
			}
			rs := make([]rune, n)
			for i := range rs {
				rs[i] = refdec.FNC1 + rune(r.Intn(4))
			}
			c128Check(c, string(rs), nocs)
		}
		// every single character of the alphabet, alone and between two others
		for ch := rune(0); ch < 128; ch++ {
			c128Check(c, string(ch), nocs)
			c128Check(c, "a"+string(ch)+"\x02", nocs)
			c128Check(c, "12"+string(ch)+"34", nocs)
		}
	case "c128.collide":
		for _, key := range []string{"print/24", "digits/30", "lower/20", "ascii/24", "c39/20"} {
			for _, hp := range collideData[key] {
				for _, nocs := range []bool{false, true} {
					for _, h := range hp {
						b, _ := hex.DecodeString(h)
						c128Check(c, string(b), nocs)
					}
				}
			}
		}
	case "c128.foreign":
		for _, fd := range foreignDigitStrings() {
			c128Check(c, fd, false)
			c128Check(c, fd, true)
		}
	case "c128.decorated":
		// structured payloads: symbology identifiers, GS1 element strings with GS, ISO 15434
		// envelopes — ordinary characters to this encoder, every one must come back
		for _, sp := range structuredPayloads() {
			c128Check(c, string(sp), false)
			c128Check(c, string(sp), true)
		}
		for _, s := range []string{"]C1", "]C1AB", "]C110X\x1d21Y", "]C0AB", "]c1ab", "AB]C1", "\x1d", "A\x1dB", "\x1d\x1d", "]C1\x1d", "ñ]C1", "]C1ñ0112345678901231", "[FNC1]01", "{FNC1}", "^FNC1", "\\F", "~1", "~d029"} {
			c128Check(c, s, false)
			c128Check(c, s, true)
		}
		for _, base := range []string{"Code128", "12345678", "a1"} {
			for _, d := range decorate([]byte(base)) {
				c128Check(c, string(d), false)
				c128Check(c, string(d), true)
			}
		}
	case "c128.alternate":
		// contents that force a code-set change (or shift) at almost every character: the
		// longest symbols a content of <= 80 runes can produce
		r := rngFor(c.Seed, "c128alt")
		pairs := [][2]int{{2, 3}, {3, 2}, {2, 0}, {0, 2}, {3, 0}, {4, 2}, {5, 3}, {2, 5}, {1, 2}, {3, 1}}
		for _, pr := range pairs {
			for n := 30; n <= 81; n++ {
				rs := make([]rune, n)
				for i := range rs {
					rs[i] = c128Rep(r, pr[i%2])
				}
				c128Check(c, string(rs), false)
				if n%3 == 0 {
					c128Check(c, string(rs), true)
				}
				// blocks of two
				for i := range rs {
					rs[i] = c128Rep(r, pr[(i/2)%2])
				}
				c128Check(c, string(rs), false)
			}
		}
	case "c128.random":
		r := rngFor(u.Int(0), "c128rnd")
		for i := 0; i < int(u.Int(1)); i++ {
			n := 1 + r.Intn(80)
			rs := make([]rune, n)
			// runs of a class, so that long digit runs and set switches both occur
			for j := 0; j < n; {
				cl := r.Intn(c128Classes)
				if r.Intn(3) == 0 {
					cl = 0
				}
				run := 1 + r.Intn(9)
				for k := 0; k < run && j < n; k++ {
					rs[j] = c128Rep(r, cl)
					j++
				}
			}
			c128Check(c, string(rs), r.Intn(2) == 0)
		}
	}
}
