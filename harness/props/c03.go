package props

import (
	"bytes"
	"fmt"
	"math/rand"

	"verifharness/fw"
	"verifharness/refdec"
)

// C03 — Aztec: every accepted payload decodes back to exactly that payload.
type c03 struct{}

func init() { fw.Register(c03{}) }

func (c03) ID() string { return "C03" }
func (c03) Rule() string {
	return "payload classes (empty, all 256 byte values, mode-transition walks over Upper/Lower/Mixed/Punct/Digit/binary incl. the four punct pairs, digit/comma/period runs, binary runs of length 1/31/32/62/63/64/2078+, runs of 0x00/0xFF that force bit stuffing) x ecc% in {0,1,5,10,23,33,50,75,90,100,150,300,1000} x layer requests (0, -4..-1, 1..32: each of the 36 sizes forced explicitly and reached automatically); every accepted symbol is read by an independent ISO 24778 reader (bullseye, orientation marks, RS-checked mode message consistent with the size, reference grid, spiral extraction, RS syndromes in the word-size field, forbidden words, un-stuffing, five-mode + binary-shift decode) and must yield the payload; an explicit layer request must be honoured exactly; non-trivial = accepted and fully decoded, distinct by (payload, ecc%, layers)"
}
func (c03) Assumptions() []string {
	return []string{
		"reference reader written from ISO/IEC 24778 (decoder direction) in refdec/aztec.go; decoding stops when the remaining un-stuffed bits are all ones and fewer than one word (the fill of the last word)",
		"don't-care: which mode path the encoder takes and which size automatic sizing picks (C13)",
	}
}

var (
	azMixedChars = []byte("\x01\x02\x03\x04\x05\x06\x07\x08\x09\x0a\x0b\x0c\x0d\x1b\x1c\x1d\x1e\x1f@\\^_`|~\x7f")
	azPunctChars = []byte("\r!\"#$%&'()*+,-./:;<=>?[]{}")
	azPairs      = []string{"\r\n", ". ", ", ", ": "}
)

// azWalk: a walk over character classes that changes class at (almost) every step.
func azWalk(r *rand.Rand, n int, sticky int) []byte {
	var b []byte
	cl := r.Intn(9)
	for len(b) < n {
		if r.Intn(sticky) == 0 {
			cl = r.Intn(9)
		}
		switch cl {
		case 0:
			b = append(b, pick(r, upperAB))
		case 1:
			b = append(b, pick(r, lowerAB))
		case 2:
			b = append(b, pick(r, digitsAB))
		case 3:
			b = append(b, pick(r, azMixedChars))
		case 4:
			b = append(b, pick(r, azPunctChars))
		case 5:
			b = append(b, ' ')
		case 6:
			b = append(b, pick(r, azPairs)...)
		case 7:
			b = append(b, byte(128+r.Intn(128)))
		default:
			b = append(b, pick(r, []byte(",.")))
		}
	}
	return b
}

var azPercents = []int64{0, 1, 5, 10, 23, 33, 50, 75, 90, 100, 150, 300, 1000}

func (c03) Gen(tier string, seed int64) []fw.Unit {
	r := rngFor(seed, "C03")
	var us []fw.Unit
	add := func(tag string, s []byte, pct, layers int64, more ...int64) {
		us = append(us, Req{Fam: "aztec", S: s, I: append([]int64{pct, layers}, more...), Scheme: -1}.Unit("aztec", tag))
	}
	scale := 1
	if tier == "thorough" {
		scale = 8
	}
	// every size, explicitly requested, with a payload that fits
	for l := int64(-4); l <= 32; l++ {
		if l == 0 {
			continue
		}
		comp := l < 0
		L := int(l)
		if comp {
			L = -L
		}
		total := refdec.AztecTotalBits(comp, L)
		for k := 0; k < scale; k++ {
			nb := total / 8 / 3
			if comp && nb > 30 {
				nb = 30
			}
			add("explicit-layers", azWalk(r, 1+r.Intn(max(1, nb/2)), 2), pick(r, []int64{0, 10, 23, 33}), l)
			add("explicit-layers-binary", randBytes(r, 1+r.Intn(max(1, nb)), highAB), 23, l)
			add("explicit-layers-tiny", []byte("A"), 33, l)
		}
	}
	// every size reached automatically: forced-length binary payloads (8 bits + headers)
	for l := 1; l <= 32; l++ {
		total := refdec.AztecTotalBits(false, l)
		for _, frac := range []int{55, 70} {
			add("auto-size-binary", randBytes(r, max(1, total*frac/100/8*100/133-6), highAB), 33, 0)
		}
	}
	for n := 1; n <= 60; n += 3 {
		add("auto-size-small", randBytes(r, n, highAB), 33, 0)
		add("auto-size-small", randBytes(r, n, upperAB), 23, 0)
	}
	// percent sweep
	for _, pct := range azPercents {
		for k := 0; k < 3*scale; k++ {
			add("percent", azWalk(r, 1+r.Intn(50), 2), pct, 0)
			add("percent", azWalk(r, 50+r.Intn(150), 3), pct, int64(pick(r, []int{0, 0, -4, 6, 12, 25})))
		}
	}
	// payload classes
	add("empty", nil, 33, 0)
	add("empty-nil-slice", nil, 33, 0, 1)
	add("empty-nil-slice", nil, 0, -1, 1)
	add("empty-nil-slice", nil, 10, 32, 1)
	add("empty", nil, 0, -1)
	add("empty", nil, 33, 5)
	add("all-bytes", allAB, 33, 0)
	add("all-bytes", allAB, 10, 0)
	rev := append([]byte{}, allAB...)
	for i, j := 0, len(rev)-1; i < j; i, j = i+1, j-1 {
		rev[i], rev[j] = rev[j], rev[i]
	}
	add("all-bytes", rev, 33, 0)
	for i := 0; i < 150*scale; i++ {
		add("mode-walk", azWalk(r, 1+r.Intn(40), 1), pick(r, azPercents[:9]), 0)
		add("mode-walk-sticky", azWalk(r, 1+r.Intn(120), 4), 33, 0)
	}
	// the four punct pairs in every mode
	ctx := []string{"A", "a", "1", "\x01", "!", "\x80"}
	for _, pre := range ctx {
		for _, pr := range azPairs {
			for _, post := range append(ctx, "") {
				add("punct-pairs", []byte(pre+pr+post), 33, 0)
				add("punct-pairs", []byte(pre+pre+pr+pr+post+post), 33, 0)
			}
		}
	}
	// digit / comma / period runs
	for i := 0; i < 30*scale; i++ {
		add("digit-runs", randBytes(r, 1+r.Intn(40), []byte("0123456789,. ")), 33, 0)
		add("digit-runs", append(append([]byte("Ab"), randBytes(r, 1+r.Intn(20), []byte("0123456789,."))...), []byte("cD")...), 33, 0)
	}
	// binary runs
	for _, n := range []int{1, 2, 30, 31, 32, 33, 61, 62, 63, 64, 65, 100, 2046, 2047, 2048, 2077, 2078, 2079, 2080, 2200} {
		add("binary-run", randBytes(r, n, highAB), 10, 0)
		if n < 300 {
			add("binary-run-in-text", append(append([]byte("Hello"), randBytes(r, n, highAB)...), []byte("world")...), 33, 0)
			add("binary-run-after-digits", append(append([]byte("12345"), randBytes(r, n, highAB)...), []byte("678")...), 33, 0)
			add("binary-run-after-punct", append(append([]byte("!?!?"), randBytes(r, n, highAB)...), []byte("!?")...), 33, 0)
		}
	}
	// bit stuffing in each word size: runs of 0x00 / 0xFF, explicit layers pick the word size
	for _, l := range []int64{1, 2, 3, 8, 9, 22, 23, 32, -1, -3} {
		for _, fill := range []byte{0x00, 0xff} {
			for _, n := range []int{1, 5, 17} {
				add("stuffing", bytes.Repeat([]byte{fill}, n), 23, l)
				add("stuffing-mixed", append(bytes.Repeat([]byte{fill}, n), 'A', fill, fill, 'z', fill), 23, l)
			}
		}
	}
	for _, q := range azBoundaryReqs(r, tier == "thorough", false) {
		us = append(us, q.Unit("aztec", "capacity-boundary"))
	}
	us = append(us, collideUnits(r, "aztec", "aztec", printAB, 24, 33, 0)...)
	us = append(us, collideUnits(r, "aztec", "aztec", []byte("ABCDEFGHIJKLMNOPQRSTUVWXYZ0123456789-/"), 24, 23, 0)...)
	us = append(us, collideUnits(r, "aztec", "aztec", allAB, 32, 33, 0)...)
	for _, base := range []string{"hello", "HELLO, WORLD. 12", "A1"} {
		for _, d := range decorate([]byte(base)) {
			add("decorated", d, 33, 0)
		}
	}
	for _, fd := range foreignDigitStrings() {
		add("foreign-digits", []byte(fd), 33, 0)
	}
	for _, sp := range structuredPayloads() {
		add("structured", sp, 33, 0)
	}
	// long texts of one kind each (prose, records, Punct pairs …) up to the largest sizes
	for class := 0; class < 8; class++ {
		for _, n := range []int{300, 1200, 2500 + r.Intn(400), 3300 + r.Intn(300)} {
			add("long-text", azTextClass(seed, class, n), int64(pick(r, []int{0, 5, 23})), 0)
		}
	}
	for _, n := range []int{4000, 5200, 6000 + r.Intn(300), 7000} {
		add("long-text-pairs", azTextClass(seed, 0, n), 5, 0)
	}
	// random bytes
	for i := 0; i < 100*scale; i++ {
		n := 1 + r.Intn(80)
		if r.Intn(10) == 0 {
			n = 200 + r.Intn(1200)
		}
		add("random", randBytes(r, n, pick(r, [][]byte{allAB, printAB, asciiAB})), pick(r, azPercents[:10]), 0)
	}
	return us
}

func aztecObserve(c *fw.Ctx, req Req) (*refdec.AztecResult, bool) {
	inner := req.String()
	c.Step(func() string { return inner })
	if c.Res().Evals%7 == 0 {
		poison("aztec", false)
	}
	o := req.call()
	if !wellFormed(c, req.entryName(), inner, &o) {
		if o.err != nil {
			c.Cover("outcome", "rejected")
		}
		return nil, false
	}
	c.Cover("outcome", "accepted")
	retainObserve(c, "aztec", o.bc, inner, 3)
	g, err := grid2D(o.bc)
	if err != nil {
		c.Violation("aztec/image", err.Error(), inner, "")
		return nil, false
	}
	res, err := refdec.DecodeAztec(g)
	if err != nil {
		key := "aztec/" + refdec.RuleOf(err)
		if len(req.S) == 0 {
			key += "/empty-payload"
		}
		c.Violation(key, err.Error(), inner, "")
		return nil, false
	}
	return res, true
}

func (p c03) Exec(c *fw.Ctx, u *fw.Unit) {
	if isCollide(u) {
		for _, q := range splitCollide(u) {
			p.one(c, q, u.Tag)
		}
		return
	}
	p.one(c, reqOfUnit(u), u.Tag)
}

func (p c03) one(c *fw.Ctx, req Req, tag string) {
	c.Eval()
	res, ok := aztecObserve(c, req)
	if !ok {
		return
	}
	inner := req.String()
	if !bytes.Equal(res.Payload, req.S) {
		c.Violation("aztec/roundtrip", fmt.Sprintf("symbol (compact=%v layers=%d) decodes to %s", res.Compact, res.Layers, short(string(res.Payload))), inner, "")
		return
	}
	if l := req.int(1); l != 0 {
		wantC, wantL := l < 0, int(l)
		if wantC {
			wantL = -wantL
		}
		if res.Compact != wantC || res.Layers != wantL {
			c.Violation("aztec/layers-not-honoured", fmt.Sprintf("requested layers %d, symbol is compact=%v layers=%d", l, res.Compact, res.Layers), inner, "")
			return
		}
	}
	c.Nontrivial(req.Key())
	sz := fmt.Sprintf("F%02d", res.Layers)
	if res.Compact {
		sz = fmt.Sprintf("C%d", res.Layers)
	}
	c.Cover("size", sz)
	c.CoverN("word_size", res.WordSize)
	c.CoverN("percent", int(req.int(0)))
	for k := range res.Features {
		c.Cover("decode_feature", k)
	}
	c.Cover("tag", tag)
	if req.int(1) != 0 {
		c.Cover("explicit_request", fmt.Sprint(req.int(1)))
	}
	if c.Rand().Intn(60) == 0 {
		c.Sample(map[string]any{"payload": short(string(req.S)), "len": len(req.S), "ecc_percent": req.int(0), "layers_requested": req.int(1), "compact": res.Compact, "layers": res.Layers, "data_words": res.DataWords, "total_words": res.TotalWords})
	}
}

// azBoundaryReqs: payloads whose encoded size lands around the acceptance boundary of
// every symbol size (and around the 64-word limit of compact symbols), in classes
// with very different bit-stuffing behaviour.  Shared by C03, C10, C12 and C13.
func azBoundaryReqs(r *rand.Rand, dense bool, autoOnly bool) []Req {
	var out []Req
	classes := 5
	mk := func(class, n int) []byte {
		switch class {
		case 0:
			return randBytes(r, n, upperAB)
		case 1:
			return randBytes(r, n, highAB)
		case 2:
			return bytes.Repeat([]byte{0xff}, n)
		case 3:
			return bytes.Repeat([]byte{0x00}, n)
		default:
			b := make([]byte, n)
			for i := range b {
				b[i] = []byte{0x00, 0xff, 0xff, 0x00, 0x7f, 0x80}[(i/3+i)%6]
			}
			return b
		}
	}
	pcts := []int64{0, 5, 10, 14, 16, 23, 33, 50}
	for l := int64(-4); l <= 32; l++ {
		if autoOnly && l != 0 {
			continue
		}
		comp, L := l < 0, int(l)
		if comp {
			L = -L
		}
		sizes := [][2]int{{0, L}}
		if l == 0 {
			// automatic sizing: aim at every size's boundary
			sizes = nil
			for k := 1; k <= 4; k++ {
				sizes = append(sizes, [2]int{1, k})
			}
			for k := 1; k <= 32; k++ {
				sizes = append(sizes, [2]int{0, k})
			}
			if !dense {
				r.Shuffle(len(sizes), func(i, j int) { sizes[i], sizes[j] = sizes[j], sizes[i] })
				sizes = sizes[:6]
			}
		} else if comp {
			sizes[0][0] = 1
		}
		for _, sz := range sizes {
			c2, L2 := sz[0] == 1, sz[1]
			total := refdec.AztecTotalBits(c2, L2)
			ws := 12
			switch {
			case L2 <= 2:
				ws = 6
			case L2 <= 8:
				ws = 8
			case L2 <= 22:
				ws = 10
			}
			for class := 0; class < classes; class++ {
				ps := pcts
				if !dense {
					ps = []int64{pcts[r.Intn(len(pcts))], pcts[r.Intn(5)]}
				}
				for _, pct := range ps {
					b := 8.0
					hdr := 21.0
					if class == 0 {
						b, hdr = 5.0, 0
					}
					stuffed := b
					if class >= 2 {
						stuffed = b * float64(ws) / float64(ws-1)
					}
					nb := int((float64(total-11) - hdr) / (stuffed + float64(pct)*b/100))
					d := 5
					if dense {
						d = 9
					}
					for n := nb - d; n <= nb+d; n++ {
						if n >= 1 && n <= 3200 {
							out = append(out, Req{Fam: "aztec", S: mk(class, n), I: []int64{pct, l}, Scheme: -1})
						}
					}
				}
			}
		}
	}
	// the 64-data-word limit of compact symbols (only compact 4 can exceed it)
	for _, l := range []int64{-4, 0} {
		if autoOnly && l != 0 {
			continue
		}
		for _, pct := range []int64{0, 5, 10, 14, 16} {
			for class, centre := range []int{102, 61, 54, 54, 56} {
				for n := centre - 9; n <= centre+9; n++ {
					out = append(out, Req{Fam: "aztec", S: mk(class, n), I: []int64{pct, l}, Scheme: -1})
				}
			}
		}
	}
	return out
}
