package props

import (
	"fmt"

	"github.com/boombuler/barcode"

	"verifharness/fw"
	"verifharness/refdec"
)

// C14 — CheckSum() reports the symbology's real check value.
type c14 struct{}

func init() { fw.Register(c14{}) }

func (c14) ID() string { return "C14" }
func (c14) Rule() string {
	return "accepted EAN inputs of 7/8/12/13 digits (all 4 lengths, every check digit value), Code 128 contents over all character classes, Code 39 contents in all four option mixes; CheckSum() is compared with the check value computed independently from the DECODED symbol, the drawn check character (if any) must carry that value, and value and presence must survive 0..3 rounds of Scale; non-trivial = accepted case on which all comparisons ran, distinct by (family, options, content)"
}
func (c14) Assumptions() []string {
	return []string{"Code 39: the check value is the modulo-43 sum over the encoded (expanded, in full-ASCII mode) data characters, also when no check character is drawn"}
}

func (c14) Gen(tier string, seed int64) []fw.Unit {
	r := rngFor(seed, "C14")
	n := 80
	if tier == "thorough" {
		n = 800
	}
	var us []fw.Unit
	for i := 0; i < n; i++ {
		us = append(us, fw.U("cs.ean", nil, "ean", r.Int63(), 400))
		us = append(us, fw.U("cs.c128", nil, "code128", r.Int63(), 300))
		us = append(us, fw.U("cs.c39", nil, "code39", r.Int63(), 300))
	}
	us = append(us, fw.U("cs.c128long", nil, "code128", r.Int63()))
	us = append(us, fw.U("cs.c39exh", nil, "code39", 0))
	us = append(us, fw.U("cs.c39exh", nil, "code39", 1))
	return us
}

// scaledRounds returns the barcode after k rounds of Scale (k = 0..3).
func scaledRounds(bc barcode.Barcode, k int, r interface{ Intn(int) int }) (barcode.Barcode, error) {
	cur := bc
	for i := 0; i < k; i++ {
		b := cur.Bounds()
		w := b.Dx()*(1+r.Intn(2)) + r.Intn(5)
		h := b.Dy() + r.Intn(4)
		var err error
		if r.Intn(2) == 0 {
			cur, err = barcode.Scale(cur, w, h)
		} else {
			cur, err = barcode.ScaleWithFill(cur, w, h, c09Fills[1+r.Intn(len(c09Fills)-1)])
		}
		if err != nil {
			return nil, err
		}
	}
	return cur, nil
}

func (p c14) checkValue(c *fw.Ctx, req Req, want int, drawn int, r interface{ Intn(int) int }, bc barcode.Barcode) {
	inner := req.String()
	for k := 0; k <= 3; k++ {
		var sb barcode.Barcode
		var err error
		pv, _ := fw.Call(func() { sb, err = scaledRounds(bc, k, r) })
		if pv != nil || err != nil {
			c.Violation("checksum/scale-failed", fmt.Sprintf("scaling round %d failed: %v %v", k, err, pv), inner, "")
			return
		}
		cs, ok := sb.(barcode.BarcodeIntCS)
		if !ok {
			c.Violation(fmt.Sprintf("checksum/%s/lost-after-scale", req.Fam), fmt.Sprintf("after %d rounds of Scale the barcode no longer exposes CheckSum()", k), inner, "")
			return
		}
		if got := cs.CheckSum(); got != want {
			key := fmt.Sprintf("checksum/%s/value", req.Fam)
			if req.Fam == "ean" {
				key += fmt.Sprintf("/len%d", len(req.S))
			}
			if k > 0 {
				key = fmt.Sprintf("checksum/%s/changed-by-scale", req.Fam)
			}
			c.Violation(key, fmt.Sprintf("CheckSum() = %d after %d scalings, the symbology's check value is %d", got, k, want), inner, "")
			return
		}
	}
	if drawn >= 0 && drawn != want {
		c.Violation(fmt.Sprintf("checksum/%s/drawn", req.Fam), fmt.Sprintf("drawn check character has value %d, check value is %d", drawn, want), inner, "")
		return
	}
	c.Nontrivial(req.Key())
	c.Cover("family", req.Fam)
	c.Cover(req.Fam+"_check_value", fmt.Sprint(want))
	if c.Res().Evals%997 == 0 {
		c.Sample(map[string]any{"request": req.String(), "check_value": want, "drawn": drawn})
	}
}

func (p c14) one(c *fw.Ctx, req Req, r interface{ Intn(int) int }) {
	c.Eval()
	if c.Res().Evals%6 == 0 {
		poison(req.Fam, false)
	}
	inner := req.String()
	c.Step(func() string { return inner })
	o := req.call()
	if !wellFormed(c, req.entryName(), inner, &o) {
		return
	}
	if _, ok := o.bc.(barcode.BarcodeIntCS); !ok {
		if req.Fam == "code128nocs" {
			return // the variant without check character need not expose a checksum
		}
		c.Violation("checksum/"+req.Fam+"/missing", "barcode does not expose CheckSum()", inner, "")
		return
	}
	bits, err := row1D(o.bc)
	if err != nil {
		c.Violation("checksum/image", err.Error(), inner, "")
		return
	}
	switch req.Fam {
	case "ean":
		dec, err := refdec.DecodeEAN(bits)
		if err != nil {
			return // C06's business
		}
		want := refdec.GS1CheckDigit(dec[:len(dec)-1])
		drawn := int(dec[len(dec)-1] - '0')
		ct := o.bc.Content()
		if len(ct) == 0 || int(ct[len(ct)-1]-'0') != want {
			c.Violation("checksum/ean/content", fmt.Sprintf("last digit of Content() %q is not the GS1 check digit %d", ct, want), inner, "")
			return
		}
		c.CoverN("ean_input_length", len(req.S))
		p.checkValue(c, req, want, drawn, r, o.bc)
	case "code128":
		res, err := refdec.DecodeCode128(bits, true)
		if err != nil {
			if refdec.RuleOf(err) == "c128-check" {
				c.Violation("checksum/code128/drawn", err.Error(), inner, "")
			}
			return
		}
		p.checkValue(c, req, res.Expected, res.Check, r, o.bc)
	case "code128nocs":
		res, err := refdec.DecodeCode128(bits, false)
		if err != nil {
			return
		}
		// it exposes CheckSum(): then the value is the symbology's modulo-103 check value
		p.checkValue(c, req, res.Expected, -1, r, o.bc)
	case "code39":
		res, err := refdec.DecodeCode39(bits, req.int(0) != 0)
		if err != nil {
			if refdec.RuleOf(err) == "c39-check" {
				c.Violation("checksum/code39/drawn", err.Error(), inner, "")
			}
			return
		}
		c.Cover("code39_options", fmt.Sprintf("cs=%v,full=%v", req.int(0) != 0, req.int(1) != 0))
		p.checkValue(c, req, res.Expected, res.Check, r, o.bc)
	}
}

func (p c14) Exec(c *fw.Ctx, u *fw.Unit) {
	switch u.Fn {
	case "cs.ean":
		r := rngFor(u.Int(0), "csean")
		for i := 0; i < int(u.Int(1)); i++ {
			n := pick(r, []int{7, 8, 12, 13})
			b := randBytes(r, n, digitsAB)
			if n == 8 || n == 13 {
				b[n-1] = byte('0' + refdec.GS1CheckDigit(string(b[:n-1])))
			}
			p.one(c, Req{Fam: "ean", S: b, Scheme: -1}, r)
		}
	case "cs.c128":
		r := rngFor(u.Int(0), "csc128")
		for i := 0; i < int(u.Int(1)); i++ {
			n := 1 + r.Intn(30)
			rs := make([]rune, n)
			for j := range rs {
				rs[j] = c128Rep(r, r.Intn(c128Classes))
			}
			p.one(c, Req{Fam: "code128", S: []byte(string(rs)), Scheme: -1}, r)
			if i%3 == 0 {
				p.one(c, Req{Fam: "code128nocs", S: []byte(string(rs)), Scheme: -1}, r)
			}
		}
	case "cs.c128long":
		// long contents incl. those that switch code set at every rune (largest weights)
		r := rngFor(u.Int(0), "csc128long")
		for n := 40; n <= 80; n++ {
			for _, pr := range [][2]int{{2, 3}, {2, 2}, {1, 1}, {0, 0}, {3, 2}, {5, 2}} {
				rs := make([]rune, n)
				for j := range rs {
					rs[j] = c128Rep(r, pr[j%2])
				}
				p.one(c, Req{Fam: "code128", S: []byte(string(rs)), Scheme: -1}, r)
			}
		}
	case "cs.c39":
		r := rngFor(u.Int(0), "csc39")
		for i := 0; i < int(u.Int(1)); i++ {
			full := int64(r.Intn(2))
			ab := []byte(refC39)
			if full == 1 {
				ab = asciiAB
			}
			txt := randBytes(r, r.Intn(25), ab)
			p.one(c, Req{Fam: "code39", S: txt, I: []int64{int64(r.Intn(2)), full}, Scheme: -1}, r)
			if i%3 == 0 {
				// the same text back to back in both modes and both check settings
				t2 := randBytes(r, 1+r.Intn(12), []byte(refC39))
				for _, mix := range [][2]int64{{1, 0}, {1, 1}, {0, 1}, {0, 0}, {1, 1}, {1, 0}} {
					p.one(c, Req{Fam: "code39", S: t2, I: []int64{mix[0], mix[1]}, Scheme: -1}, r)
				}
			}
		}
	case "cs.c39exh":
		// every single character and every check value 0..42 at least once
		r := rngFor(c.Seed, "csc39exh")
		full := u.Int(0)
		for a := 0; a < 43; a++ {
			for b := 0; b < 43; b++ {
				for cs := int64(0); cs < 2; cs++ {
					p.one(c, Req{Fam: "code39", S: []byte{refC39[a], refC39[b]}, I: []int64{cs, full}, Scheme: -1}, r)
				}
			}
		}
	}
}
