package props

import (
	"fmt"
	"image/color"
	"math/rand"
	"reflect"

	"github.com/boombuler/barcode"
	"github.com/boombuler/barcode/aztec"
	"github.com/boombuler/barcode/codabar"
	"github.com/boombuler/barcode/code128"
	"github.com/boombuler/barcode/code39"
	"github.com/boombuler/barcode/code93"
	"github.com/boombuler/barcode/datamatrix"
	"github.com/boombuler/barcode/ean"
	"github.com/boombuler/barcode/pdf417"
	"github.com/boombuler/barcode/qr"
	"github.com/boombuler/barcode/twooffive"

	"verifharness/fw"
)

// Req is one encoder request: family, payload, integer parameters and a colour
// scheme id (negative: the plain Encode variant).
type Req struct {
	Fam    string  `json:"fam"`
	S      []byte  `json:"s"`
	I      []int64 `json:"i,omitempty"`
	Scheme int64   `json:"scheme"`
}

func (r Req) String() string {
	return fmt.Sprintf("%s(%s,%v,scheme=%d)", r.Fam, short(string(r.S)), r.I, r.Scheme)
}

func (r Req) Key() string { return fmt.Sprintf("%s|%x|%v|%d", r.Fam, r.S, r.I, r.Scheme) }

func (r Req) Unit(fn, tag string) fw.Unit {
	ints := append([]int64{r.Scheme}, r.I...)
	return fw.Unit{Fn: fn + ":" + r.Fam, S: hx(r.S), I: ints, Tag: tag}
}

func reqOfUnit(u *fw.Unit) Req {
	fam := u.Fn
	for i := 0; i < len(fam); i++ {
		if fam[i] == ':' {
			fam = fam[i+1:]
			break
		}
	}
	r := Req{Fam: fam, S: u.Bytes(), Scheme: u.Int(0)}
	if len(u.I) > 1 {
		r.I = u.I[1:]
	}
	return r
}

func (r Req) int(i int) int64 {
	if i < len(r.I) {
		return r.I[i]
	}
	return 0
}

var families = []string{"qr", "datamatrix", "aztec", "pdf417", "code128", "code128nocs", "code39", "code93", "codabar", "ean", "2of5"}

// sliceColor is a colour type that is not comparable with == (its dynamic type is a slice).
type sliceColor []uint16

func (s sliceColor) RGBA() (r, g, b, a uint32) {
	return uint32(s[0]), uint32(s[1]), uint32(s[2]), 0xffff
}

// swappedSchemeBase+k is scheme k with ink and paper exchanged (same colour model).
const swappedSchemeBase = 1000000
const degenerateSchemeBase = 100000
const degenerateSchemeClasses = 7

// degenerateScheme: legal but unusual schemes — equal colours, colours that render
// alike, colours that collapse under the model, transparent ink or paper, colour
// values of an uncomparable type.  Representability of the content does not depend
// on the scheme, and the WithColor variants must use it as given.
func degenerateScheme(k int64) barcode.ColorScheme {
	switch k % degenerateSchemeClasses {
	case 0:
		return barcode.ColorScheme{Model: color.RGBAModel, Foreground: color.RGBA{200, 10, 10, 255}, Background: color.RGBA{200, 10, 10, 255}}
	case 1:
		return barcode.ColorScheme{Model: color.RGBAModel, Foreground: color.Gray{0}, Background: color.RGBA{0, 0, 0, 255}}
	case 2:
		return barcode.ColorScheme{Model: color.GrayModel, Foreground: color.RGBA{255, 0, 0, 255}, Background: color.Gray{76}}
	case 3:
		return barcode.ColorScheme{Model: color.RGBAModel, Foreground: color.RGBA{}, Background: color.RGBA{255, 255, 255, 255}}
	case 4:
		return barcode.ColorScheme{Model: color.NRGBAModel, Foreground: color.NRGBA{0, 0, 0, 255}, Background: color.NRGBA{0, 0, 0, 0}}
	case 5:
		return barcode.ColorScheme{Model: color.RGBA64Model, Foreground: sliceColor{0, 0, 0x8000}, Background: sliceColor{0xffff, 0xffff, 0xf000}}
	default:
		return barcode.ColorScheme{Model: color.AlphaModel, Foreground: color.Black, Background: color.White}
	}
}

// sameColor is == for colour values that also works for uncomparable dynamic types.
func sameColor(a, b color.Color) (eq bool) {
	defer func() {
		if recover() != nil {
			eq = reflect.DeepEqual(a, b)
		}
	}()
	return a == b
}

func sameScheme(a, b barcode.ColorScheme) bool {
	return a.Model == b.Model && sameColor(a.Foreground, b.Foreground) && sameColor(a.Background, b.Background)
}

// schemeOf maps a scheme id to a colour scheme; ids 0..3 are the library's own.
func schemeOf(id int64) barcode.ColorScheme {
	if id >= swappedSchemeBase {
		s := schemeOf(id - swappedSchemeBase)
		s.Foreground, s.Background = s.Background, s.Foreground
		return s
	}
	if id >= degenerateSchemeBase {
		return degenerateScheme(id - degenerateSchemeBase)
	}
	switch id {
	case 0:
		return barcode.ColorScheme16
	case 1:
		return barcode.ColorScheme8
	case 2:
		return barcode.ColorScheme24
	case 3:
		return barcode.ColorScheme32
	}
	r := rand.New(rand.NewSource(id * 2654435761))
	u8 := func() uint8 { return uint8(r.Intn(256)) }
	u16 := func() uint16 { return uint16(r.Intn(65536)) }
	var fgc, bgc color.Color
	var m color.Model
	for {
		switch id % 13 {
		case 12:
			// a scheme with only the two colours set (Model left nil)
			m, fgc, bgc = nil, color.RGBA{u8(), 20, 20, 255}, color.RGBA{230, 230, u8(), 255}
		case 0:
			m, fgc, bgc = color.GrayModel, color.Gray{u8()}, color.Gray{u8()}
		case 1:
			m, fgc, bgc = color.Gray16Model, color.Gray16{u16()}, color.Gray16{u16()}
		case 2:
			m, fgc, bgc = color.RGBAModel, color.RGBA{u8(), u8(), u8(), 255}, color.RGBA{u8(), u8(), u8(), 255}
		case 3:
			m, fgc, bgc = color.NRGBAModel, color.NRGBA{u8(), u8(), u8(), u8()}, color.NRGBA{u8(), u8(), u8(), u8()}
		case 4:
			m, fgc, bgc = color.CMYKModel, color.CMYK{u8(), u8(), u8(), u8()}, color.CMYK{u8(), u8(), u8(), u8()}
		case 5:
			m, fgc, bgc = color.Alpha16Model, color.Alpha16{u16()}, color.Alpha16{u16()}
		case 6:
			m, fgc, bgc = color.RGBA64Model, color.RGBA64{u16(), u16(), u16(), 0xffff}, color.RGBA64{u16(), u16(), u16(), 0xffff}
		case 7:
			// inverted: light bars on a dark ground
			m, fgc, bgc = color.RGBAModel, color.RGBA{255, 255, 200, 255}, color.RGBA{u8() / 4, u8() / 4, u8() / 4, 255}
		case 8:
			// low contrast, both light
			m, fgc, bgc = color.RGBAModel, color.RGBA{255, 255, 200 + u8()/8, 255}, color.RGBA{255, 255, 255, 255}
		case 9:
			// low contrast, both dark
			m, fgc, bgc = color.RGBAModel, color.RGBA{0, 0, 60 + u8()/4, 255}, color.RGBA{0, 0, 0, 255}
		case 10:
			// colours that are not of the model's own type
			m, fgc, bgc = color.GrayModel, color.RGBA{200, 30, u8(), 255}, color.NRGBA{u8(), 255, 30, 128}
		default:
			m, fgc, bgc = color.RGBAModel, color.NRGBA{255, u8(), 0, 128}, color.Gray{200 + u8()/8}
		}
		if fgc != bgc {
			break
		}
	}
	return barcode.ColorScheme{Model: m, Foreground: fgc, Background: bgc}
}

// PreferWithColor makes requests for the plain variant go through the WithColor entry
// point with the library's default scheme (set in every second worker, so that in half
// of the processes the first call into a package is EncodeWithColor).
var PreferWithColor bool

// do performs the request against the real library.
func (r Req) do() (barcode.Barcode, error) {
	s := string(r.S)
	plain := r.Scheme < 0
	var cs barcode.ColorScheme
	if !plain {
		cs = schemeOf(r.Scheme)
	} else if PreferWithColor {
		plain = false
		cs = barcode.ColorScheme16
	}
	switch r.Fam {
	case "qr":
		lvl, mode := qr.ErrorCorrectionLevel(r.int(0)), qr.Encoding(r.int(1))
		if plain {
			return qr.Encode(s, lvl, mode)
		}
		return qr.EncodeWithColor(s, lvl, mode, cs)
	case "datamatrix":
		if plain {
			return datamatrix.Encode(s)
		}
		return datamatrix.EncodeWithColor(s, cs)
	case "aztec":
		data := append([]byte{}, r.S...)
		if len(r.S) == 0 && r.int(2) == 1 {
			data = nil // the empty payload as a nil slice
		}
		if plain {
			return aztec.Encode(data, int(r.int(0)), int(r.int(1)))
		}
		return aztec.EncodeWithColor(data, int(r.int(0)), int(r.int(1)), cs)
	case "pdf417":
		if plain {
			return pdf417.Encode(s, byte(r.int(0)))
		}
		return pdf417.EncodeWithColor(s, byte(r.int(0)), cs)
	case "code128":
		if plain {
			return nilfix(code128.Encode(s))
		}
		return nilfix(code128.EncodeWithColor(s, cs))
	case "code128nocs":
		if plain {
			return code128.EncodeWithoutChecksum(s)
		}
		return code128.EncodeWithoutChecksumWithColor(s, cs)
	case "code39":
		if plain {
			return nilfix(code39.Encode(s, r.int(0) != 0, r.int(1) != 0))
		}
		return nilfix(code39.EncodeWithColor(s, r.int(0) != 0, r.int(1) != 0, cs))
	case "code93":
		if plain {
			return code93.Encode(s, r.int(0) != 0, r.int(1) != 0)
		}
		return code93.EncodeWithColor(s, r.int(0) != 0, r.int(1) != 0, cs)
	case "codabar":
		if plain {
			return codabar.Encode(s)
		}
		return codabar.EncodeWithColor(s, cs)
	case "ean":
		if plain {
			return nilfix(ean.Encode(s))
		}
		return nilfix(ean.EncodeWithColor(s, cs))
	case "2of5":
		if plain {
			return twooffive.Encode(s, r.int(0) != 0)
		}
		return twooffive.EncodeWithColor(s, r.int(0) != 0, cs)
	}
	panic("unknown family " + r.Fam)
}

// nilfix converts a (BarcodeIntCS)(nil) into an untyped nil Barcode.
func nilfix(b barcode.BarcodeIntCS, err error) (barcode.Barcode, error) {
	if b == nil {
		return nil, err
	}
	return b, err
}

func (r Req) call() outcome { return guard(r.do) }

// entryName is the exported function a request exercises.
func (r Req) entryName() string {
	n := map[string]string{"qr": "qr.Encode", "datamatrix": "datamatrix.Encode", "aztec": "aztec.Encode", "pdf417": "pdf417.Encode",
		"code128": "code128.Encode", "code128nocs": "code128.EncodeWithoutChecksum", "code39": "code39.Encode", "code93": "code93.Encode",
		"codabar": "codabar.Encode", "ean": "ean.Encode", "2of5": "twooffive.Encode"}[r.Fam]
	if r.Scheme >= 0 || PreferWithColor {
		n += "WithColor"
	}
	return n
}

// samplePool returns valid requests spanning all eleven families and a range of
// symbol sizes; scheme is applied to all of them.
func samplePool(r *rand.Rand, n int, scheme func() int64) []Req {
	var out []Req
	for i := 0; i < n; i++ {
		fam := families[i%len(families)]
		out = append(out, randomValidReq(r, fam, scheme()))
	}
	return out
}

func randomValidReq(r *rand.Rand, fam string, scheme int64) Req {
	switch fam {
	case "qr":
		mode := int64(r.Intn(4))
		var s []byte
		n := 1 + r.Intn(60)
		if r.Intn(6) == 0 {
			n = 100 + r.Intn(700)
		}
		switch mode {
		case 1:
			s = randBytes(r, n, digitsAB)
		case 2:
			s = randBytes(r, n, qrAlnumAB)
		default:
			s = randBytes(r, n, pick(r, [][]byte{digitsAB, qrAlnumAB, printAB, allAB}))
		}
		return Req{Fam: fam, S: s, I: []int64{int64(r.Intn(4)), mode}, Scheme: scheme}
	case "datamatrix":
		n := 1 + r.Intn(80)
		if r.Intn(6) == 0 {
			n = 100 + r.Intn(900)
		}
		return Req{Fam: fam, S: randBytes(r, n, pick(r, [][]byte{digitsAB, printAB, allAB})), Scheme: scheme}
	case "aztec":
		n := 1 + r.Intn(80)
		if r.Intn(6) == 0 {
			n = 100 + r.Intn(600)
		}
		return Req{Fam: fam, S: randBytes(r, n, pick(r, [][]byte{digitsAB, printAB, allAB, upperAB})), I: []int64{int64(pick(r, []int{0, 10, 23, 33, 50})), 0}, Scheme: scheme}
	case "pdf417":
		n := 1 + r.Intn(100)
		if r.Intn(6) == 0 {
			n = 100 + r.Intn(500)
		}
		return Req{Fam: fam, S: randBytes(r, n, pick(r, [][]byte{digitsAB, printAB, allAB, upperAB})), I: []int64{int64(r.Intn(6))}, Scheme: scheme}
	case "code128", "code128nocs":
		n := 1 + r.Intn(40)
		return Req{Fam: fam, S: randBytes(r, n, pick(r, [][]byte{digitsAB, printAB, asciiAB})), Scheme: scheme}
	case "code39":
		full := int64(r.Intn(2))
		ab := []byte(refC39)
		if full == 1 {
			ab = asciiAB
		}
		return Req{Fam: fam, S: randBytes(r, r.Intn(30), ab), I: []int64{int64(r.Intn(2)), full}, Scheme: scheme}
	case "code93":
		full := int64(r.Intn(2))
		ab := []byte(refC39)
		if full == 1 {
			ab = asciiAB
		}
		return Req{Fam: fam, S: randBytes(r, r.Intn(30), ab), I: []int64{int64(r.Intn(2)), full}, Scheme: scheme}
	case "codabar":
		s := []byte{pick(r, []byte("ABCD"))}
		s = append(s, randBytes(r, r.Intn(20), []byte("0123456789-$:/.+"))...)
		s = append(s, pick(r, []byte("ABCD")))
		return Req{Fam: fam, S: s, Scheme: scheme}
	case "ean":
		n := pick(r, []int{7, 12})
		return Req{Fam: fam, S: randBytes(r, n, digitsAB), Scheme: scheme}
	case "2of5":
		il := int64(r.Intn(2))
		n := 1 + r.Intn(24)
		if il == 1 && n%2 == 1 {
			n++
		}
		return Req{Fam: fam, S: randBytes(r, n, digitsAB), I: []int64{il}, Scheme: scheme}
	}
	panic(fam)
}

const refC39 = "0123456789ABCDEFGHIJKLMNOPQRSTUVWXYZ-. $/+%"
