package props

import (
	"fmt"
	"math"
	"math/big"
	"strings"

	"verifharness/fw"
	"verifharness/refdec"
)

// C12 — Requested error-correction strength is what the symbol really carries.
type c12 struct{}

func init() { fw.Register(c12{}) }

func (c12) ID() string { return "C12" }
func (c12) Rule() string {
	return "the case lists of C01-C04 re-tagged (QR: all 160 version x level layouts and capacity boundaries; PDF417: 9 levels x length sweep; DataMatrix: all 24 sizes; Aztec: payload classes) plus Aztec percentage sweeps at fixed payloads and explicit layers incl. extreme percentages; oracle on the decoded structure: QR format level == requested and ISO check-codeword count per block with zero syndromes; PDF417 both indicators' level == requested, 2^(level+1) valid check words; Aztec (total - data words) x word size >= floor(p x payload bits / 100); DataMatrix ECC 200 check-codeword count of its size; non-trivial = accepted, decoded and compared, distinct by request"
}
func (c12) Assumptions() []string {
	return []string{
		"Aztec: 'data bits' of the requested percentage are the bits the reference decoder consumed for the payload (before bit stuffing and padding)",
		"shares the reference readers of C01-C04 and their trusted tables",
	}
}

func (c12) Gen(tier string, seed int64) []fw.Unit {
	var us []fw.Unit
	take := func(src []fw.Unit, every int, tagPrefix string) {
		for i, u := range src {
			if strings.HasPrefix(u.Fn, "qrpair") || strings.HasPrefix(u.Fn, "collide") {
				continue
			}
			if i%every == 0 {
				u.Tag = tagPrefix + u.Tag
				u.Fn = "ecc:" + u.Fn[indexColon(u.Fn)+1:]
				us = append(us, u)
			}
		}
	}
	ev := 2
	if tier == "thorough" {
		ev = 1
	}
	take(c01{}.Gen(tier, seed+1000), ev, "qr/")
	take(c02{}.Gen(tier, seed+1000), ev*2, "dm/")
	take(c03{}.Gen(tier, seed+1000), ev, "aztec/")
	take(c04{}.Gen(tier, seed+1000), ev, "pdf/")
	// Aztec percentage sweeps at fixed payloads, automatic and explicit layers
	r := rngFor(seed, "C12")
	pcts := []int64{0, 1, 2, 5, 10, 20, 23, 25, 33, 40, 50, 66, 75, 90, 99, 100, 101, 150, 200, 300, 500, 1000, 5000, 100000,
		1 << 31, 1 << 40, math.MaxInt64/1000 + 1, math.MaxInt64 / 2, math.MaxInt64}
	payloads := [][]byte{[]byte("A"), []byte("HELLO WORLD 12345"), randBytes(r, 40, highAB), randBytes(r, 300, printAB), azWalk(r, 25, 1)}
	for _, pl := range payloads {
		for _, pct := range pcts {
			for _, l := range []int64{0, -4, 4, 12, 32} {
				us = append(us, Req{Fam: "aztec", S: pl, I: []int64{pct, l}, Scheme: -1}.Unit("ecc", "aztec/percent-sweep"))
			}
		}
	}
	for _, q := range azBoundaryReqs(r, tier == "thorough", false) {
		us = append(us, q.Unit("ecc", "aztec/capacity-boundary"))
	}
	// PDF417: every level for fixed data, incl. short data where check words dominate
	for lvl := int64(0); lvl < 9; lvl++ {
		for _, s := range []string{"", "A", "PDF417", "1234567890123456", "\x80\x81\x82"} {
			us = append(us, Req{Fam: "pdf417", S: []byte(s), I: []int64{lvl}, Scheme: -1}.Unit("ecc", "pdf/level-sweep"))
		}
	}
	// QR: all four levels for fixed contents of each mode
	for lvl := int64(0); lvl < 4; lvl++ {
		for mode := int64(0); mode < 4; mode++ {
			for _, s := range []string{"0", "12345678", "HELLO", "hello"} {
				us = append(us, Req{Fam: "qr", S: []byte(s), I: []int64{lvl, mode}, Scheme: -1}.Unit("ecc", "qr/level-sweep"))
			}
		}
	}
	return us
}

func indexColon(s string) int {
	for i := 0; i < len(s); i++ {
		if s[i] == ':' {
			return i
		}
	}
	return -1
}

func (p c12) Exec(c *fw.Ctx, u *fw.Unit) {
	req := reqOfUnit(u)
	c.Eval()
	inner := req.String()
	switch req.Fam {
	case "qr":
		res, ok := qrObserve(c, req)
		if !ok {
			return
		}
		if int64(res.Level) != req.int(0) {
			c.Violation("ecc/qr/level", fmt.Sprintf("format information names level %c, requested %c", "LMQH"[res.Level], "LMQH"[req.int(0)&3]), inner, "")
			return
		}
		nb, ecl := refdec.QRBlocks(res.Version, int(req.int(0)))
		if res.NumBlocks != nb || res.EccPerBlock != ecl {
			c.Violation("ecc/qr/count", fmt.Sprintf("%d blocks x %d check codewords, ISO %d x %d", res.NumBlocks, res.EccPerBlock, nb, ecl), inner, "")
			return
		}
		c.Cover("qr_layout", fmt.Sprintf("%d-%c", res.Version, "LMQH"[res.Level]))
		c.Cover("family", "qr")
	case "datamatrix":
		res, ok := dmObserve(c, req)
		if !ok {
			return
		}
		if want := refdec.DMEccCount(res.Size); res.EccCount != want {
			c.Violation("ecc/dm/count", fmt.Sprintf("%d check codewords, ECC 200 prescribes %d for %dx%d", res.EccCount, want, res.Size, res.Size), inner, "")
			return
		}
		c.CoverN("dm_size", res.Size)
		c.Cover("family", "datamatrix")
	case "pdf417":
		res, ok := pdfObserve(c, req)
		if !ok {
			return
		}
		if int64(res.Level) != req.int(0) {
			c.Violation("ecc/pdf/level", fmt.Sprintf("row indicators name security level %d, requested %d", res.Level, req.int(0)), inner, "")
			return
		}
		if k := len(res.Codewords) - res.NumData; k != 2<<uint(req.int(0)) {
			c.Violation("ecc/pdf/count", fmt.Sprintf("%d check codewords, level %d needs %d", k, req.int(0), 2<<uint(req.int(0))), inner, "")
			return
		}
		c.CoverN("pdf_level", res.Level)
		c.Cover("family", "pdf417")
	case "aztec":
		res, ok := aztecObserve(c, req)
		if !ok {
			return
		}
		have := big.NewInt(int64((res.TotalWords - res.DataWords) * res.WordSize))
		need := new(big.Int).Mul(big.NewInt(req.int(0)), big.NewInt(int64(res.PayloadBits)))
		need.Div(need, big.NewInt(100))
		if have.Cmp(need) < 0 {
			cls := "normal"
			if req.int(0) > 1<<30 {
				cls = "huge-percent"
			}
			c.Violation("ecc/aztec/percent/"+cls, fmt.Sprintf("check words carry %s bits, %d%% of %d payload bits is %s", have, req.int(0), res.PayloadBits, need), inner, "")
			return
		}
		c.Cover("aztec_percent", fmt.Sprint(req.int(0)))
		c.Cover("family", "aztec")
	default:
		return
	}
	c.Nontrivial(req.Key())
	c.Cover("tag", u.Tag)
	if c.Rand().Intn(80) == 0 {
		c.Sample(map[string]any{"request": req.String()})
	}
}
