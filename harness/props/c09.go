package props

import (
	"fmt"
	"image"
	"image/color"
	"math"
	"math/rand"

	"github.com/boombuler/barcode"

	"verifharness/fw"
	"verifharness/refdec"
)

// C09 — Scale: integer, centred, distortion-free enlargement or an error.
// Reference-model monitor: every pixel of every result is compared with an
// executable model evaluated on the source's own pixel grid.
type c09 struct{}

func init() { fw.Register(c09{}) }

func (c09) ID() string { return "C09" }
func (c09) Rule() string {
	return "sources from all encoder families (several colour schemes) x (width,height) windows (full window 1..3*size+3 for small symbols, boundary grid {1,s-1,s,s+1,2s-1,2s,2s+1,3s-1,3s,3s+2} + random for large ones) x fill colours over five colour models x chains of up to 3 scalings; every pixel of every result compared with the model; non-trivial = an accepted scaling whose complete pixel comparison ran, distinct by (source, chain of sizes, fill)"
}
func (c09) Assumptions() []string {
	return []string{
		"pixel colours are compared with Go interface equality (same dynamic type and value), fill included",
		"'centred to within one pixel': the block grid offset must be floor or ceil of (requested - factor*source)/2 per scaled axis",
	}
}

var c09Fills = []color.Color{
	nil, // nil: use barcode.Scale (default fill)
	color.White,
	color.RGBA{10, 200, 30, 255},
	color.Gray{77},
	color.NRGBA{200, 10, 10, 128},
	color.CMYK{10, 20, 30, 40},
	color.Alpha16{0x1234},
	color.Transparent,
}

func c09Sources(tier string, seed int64) []Req {
	r := rngFor(seed, "C09src")
	var out []Req
	add := func(fam string, s string, scheme int64, ints ...int64) {
		out = append(out, Req{Fam: fam, S: []byte(s), I: ints, Scheme: scheme})
	}
	// small fixed sources: full window
	add("qr", "A", -1, 0, 0)
	add("datamatrix", "1", -1)
	add("aztec", "A", -1, 33, 0)
	add("ean", "5512345", -1)
	add("2of5", "12", 10, 1)
	add("qr", "hello", 12, 1, 3)
	// larger / other families: boundary grid
	add("qr", string(randBytes(r, 300, printAB)), 13, 2, 0)
	add("qr", string(randBytes(r, 2900, printAB)), -1, 0, 0) // v40
	add("datamatrix", string(randBytes(r, 40, printAB)), 11)
	add("datamatrix", string(randBytes(r, 1500, upperAB)), -1)
	add("aztec", string(randBytes(r, 200, printAB)), -1, 33, 0)
	add("aztec", "compact", 14, 23, -2)
	add("pdf417", "PDF417 is not square", -1, 2)
	add("pdf417", string(randBytes(r, 300, printAB)), 12, 4)
	add("code128", "Scale-128", -1)
	add("code128nocs", "nocs", 11)
	add("code39", "CODE 39", -1, 1, 0)
	add("code93", "CODE 93", 10, 1, 0)
	add("codabar", "A123456B", -1)
	add("ean", "123456789012", 12)
	add("2of5", "1234567", -1, 0)
	add("code128", string(randBytes(r, 80, lowerAB)), -1) // > 900 modules
	// every distinct symbol size of the 2D families (exact multiples are what
	// reciprocal / rounding shortcuts get wrong for particular sizes)
	step := 3
	if tier == "thorough" {
		step = 1
	}
	for v := 1 + int(seed%int64(step)); v <= 40; v += step {
		out = append(out, Req{Fam: "qr", S: qrForced(r, 4, refdec.QRCapacity(4, v, 0)), I: []int64{0, 3}, Scheme: -1})
	}
	for i, cp := range refdec.DMCapacities() {
		if i%step == int(seed%int64(step)) {
			out = append(out, Req{Fam: "datamatrix", S: dmContent(r, 0, cp[1]), Scheme: -1})
		}
	}
	for l := int64(-4); l <= 32; l++ {
		if l != 0 && (int(l)+4)%step == int(seed%int64(step)) {
			out = append(out, Req{Fam: "aztec", S: []byte("A"), I: []int64{23, l}, Scheme: -1})
		}
	}
	if tier == "thorough" {
		for i := 0; i < 60; i++ {
			fam := families[i%len(families)]
			sch := int64(-1)
			if i%3 != 0 {
				sch = int64(8 + r.Intn(40))
			}
			out = append(out, randomValidReq(r, fam, sch))
		}
	}
	return out
}

func (c09) Gen(tier string, seed int64) []fw.Unit {
	var us []fw.Unit
	srcs := c09Sources(tier, seed)
	r := rngFor(seed, "C09")
	for i, s := range srcs {
		mode := int64(1) // grid
		if i < 6 {
			mode = 0 // full window
		}
		nf := 3
		if tier == "thorough" {
			nf = 6
		}
		for k := 0; k < nf; k++ {
			fill := int64((i + k*3) % len(c09Fills))
			if k == 0 {
				fill = 0
			}
			u := s.Unit("scale", "single")
			u.I = append([]int64{mode, fill, r.Int63(), 1}, u.I...)
			us = append(us, u)
		}
		if i < 24 || tier == "thorough" {
			u := s.Unit("scale", "exact-chain")
			u.I = append([]int64{4, int64(r.Intn(len(c09Fills))), r.Int63(), 2}, u.I...)
			us = append(us, u)
		}
		if i%5 == 1 || i < 6 {
			u := s.Unit("scale", "large-intermediate-chain")
			u.I = append([]int64{6, int64(r.Intn(len(c09Fills))), r.Int63(), 2}, u.I...)
			us = append(us, u)
		}
		if i%3 == 0 || i < 12 {
			u := s.Unit("scale", "enormous")
			u.I = append([]int64{5, int64(r.Intn(len(c09Fills))), r.Int63(), 1}, u.I...)
			us = append(us, u)
		}
		// chains
		for depth := int64(2); depth <= 3; depth++ {
			u := s.Unit("scale", fmt.Sprintf("chain%d", depth))
			u.I = append([]int64{2, int64(r.Intn(len(c09Fills))), r.Int63(), depth}, u.I...)
			us = append(us, u)
		}
	}
	// every integer factor up to a bound, exact and with slack, for a 1D and two small 2D sources
	fmax1, fmax2 := int64(400), int64(130)
	if tier == "thorough" {
		fmax1, fmax2 = 1200, 260
	}
	for _, s := range []Req{{Fam: "ean", S: []byte("5512345"), Scheme: -1}, {Fam: "datamatrix", S: []byte("1"), Scheme: -1}, {Fam: "aztec", S: []byte("A"), I: []int64{33, -1}, Scheme: 9}} {
		fm := fmax2
		if s.Fam == "ean" {
			fm = fmax1
		}
		for lo := int64(1); lo <= fm; lo += 10 {
			u := s.Unit("scale", "factor-sweep")
			u.I = append([]int64{3, int64(r.Intn(len(c09Fills))), lo, min64(lo+9, fm)}, u.I...)
			us = append(us, u)
		}
	}
	return us
}

func min64(a, b int64) int64 {
	if a < b {
		return a
	}
	return b
}

// scaleModel checks one Scale/ScaleWithFill result against the executable model.
// It returns "" if the result conforms.
func scaleModel(src barcode.Barcode, res barcode.Barcode, err error, w, h int, fill color.Color) (rmsg string, rfull bool) {
	defer func() {
		if pv := recover(); pv != nil {
			rmsg, rfull = fmt.Sprintf("an accessor of the scaled result panics: %v", pv), false
		}
	}()
	sb := src.Bounds()
	w0, h0 := sb.Dx(), sb.Dy()
	dims := src.Metadata().Dimensions
	var f int
	if dims == 1 {
		f = w / w0
	} else {
		f = min(w/w0, h/h0)
	}
	if f == 0 {
		if err == nil {
			return fmt.Sprintf("request %dx%d is smaller than the %dx%d symbol but no error was returned", w, h, w0, h0), false
		}
		if res != nil {
			if isNilIface(res) {
				return fmt.Sprintf("error together with a non-nil Barcode interface holding a nil %T", res), false
			}
			return "error together with a non-nil barcode", false
		}
		return "", false
	}
	if err != nil {
		return fmt.Sprintf("request %dx%d fits the %dx%d symbol (factor %d) but an error was returned: %v", w, h, w0, h0, f, err), false
	}
	if res == nil || isNilIface(res) {
		return "nil barcode without error", false
	}
	if rb := res.Bounds(); rb != image.Rect(0, 0, w, h) {
		return fmt.Sprintf("bounds %v, want (0,0)-(%d,%d)", rb, w, h), false
	}
	if res.Content() != src.Content() {
		return fmt.Sprintf("Content %q differs from the source's %q", res.Content(), src.Content()), false
	}
	if res.Metadata() != src.Metadata() {
		return fmt.Sprintf("Metadata %v differs from the source's %v", res.Metadata(), src.Metadata()), false
	}
	scs, sok := src.(barcode.BarcodeIntCS)
	rcs, rok := res.(barcode.BarcodeIntCS)
	if sok && !rok {
		return "source exposes CheckSum() but the scaled result does not", false
	}
	if sok && rok && scs.CheckSum() != rcs.CheckSum() {
		return fmt.Sprintf("CheckSum %d differs from the source's %d", rcs.CheckSum(), scs.CheckSum()), false
	}
	// candidate offsets: floor and ceil of the exact centre
	cand := func(total, used int) []int {
		d := total - used
		if d%2 == 0 {
			return []int{d / 2}
		}
		return []int{d / 2, d/2 + 1}
	}
	oxs := cand(w, f*w0)
	oys := []int{0}
	if dims != 1 {
		oys = cand(h, f*h0)
	}
	// cache the source pixels (an enormous source, itself a scaled barcode that was
	// compared with the model before, is read on demand)
	var srcPix []color.Color
	if w0 <= 1<<22/h0 {
		srcPix = make([]color.Color, w0*h0)
		for y := 0; y < h0; y++ {
			for x := 0; x < w0; x++ {
				srcPix[y*w0+x] = src.At(sb.Min.X+x, sb.Min.Y+y)
			}
		}
	}
	srcAt := func(i int) color.Color {
		if srcPix != nil {
			return srcPix[i]
		}
		return src.At(sb.Min.X+i%w0, sb.Min.Y+i/w0)
	}
	var firstMsg string
	for _, ox := range oxs {
		for _, oy := range oys {
			msg := ""
			xs, ys := axisSamples(w, ox, f, w0), []int{0}
			if dims == 1 {
				ys = axisSamples(h, 0, h, 1)
			} else {
				ys = axisSamples(h, oy, f, h0)
			}
		pix:
			for _, y := range ys {
				for _, x := range xs {
					var want color.Color
					if dims == 1 {
						if x >= ox && x < ox+f*w0 {
							want = srcAt((x - ox) / f)
						} else {
							want = fill
						}
					} else {
						if x >= ox && x < ox+f*w0 && y >= oy && y < oy+f*h0 {
							want = srcAt(((y-oy)/f)*w0 + (x-ox)/f)
						} else {
							want = fill
						}
					}
					if got := res.At(x, y); got != want {
						msg = fmt.Sprintf("pixel (%d,%d) = %#v, model (factor %d, offset %d,%d) says %#v", x, y, got, f, ox, oy, want)
						break pix
					}
				}
			}
			if msg == "" {
				return "", true
			}
			if firstMsg == "" {
				firstMsg = msg
			}
		}
	}
	return firstMsg, false
}

// axisSamples lists the coordinates of one axis the model looks at: all of them up to
// 4096, otherwise the image edges, the symbol's edges, both sides of module
// boundaries and module centres (every module up to 48, else a spread), and a fixed
// pseudo-random scatter.
func axisSamples(total, off, f, n0 int) []int {
	if total <= 4096 {
		out := make([]int, total)
		for i := range out {
			out[i] = i
		}
		return out
	}
	seen := map[int]bool{}
	var out []int
	put := func(v int) {
		if v >= 0 && v < total && !seen[v] {
			seen[v] = true
			out = append(out, v)
		}
	}
	for d := 0; d < 3; d++ {
		put(d)
		put(total - 1 - d)
		put(total/2 - 1 + d)
	}
	for d := -2; d <= 2; d++ {
		put(off + d)
		put(off + f*n0 + d)
	}
	step := 1
	if n0 > 48 {
		step = n0 / 48
	}
	for k := 0; k < n0; k += step {
		put(off + k*f - 1)
		put(off + k*f)
		put(off + k*f + f/2)
		put(off + (k+1)*f - 1)
	}
	put(off + (n0-1)*f)
	put(off + n0*f - 1)
	rr := rand.New(rand.NewSource(int64(total) ^ int64(off)*7919))
	for i := 0; i < 24; i++ {
		put(rr.Intn(total))
		if off > 0 {
			put(rr.Intn(off))
			put(total - 1 - rr.Intn(off))
		}
		put(off + rr.Intn(f*n0))
	}
	return out
}

func gridSizes(s int) []int {
	return []int{1, s - 1, s, s + 1, 2*s - 1, 2 * s, 2*s + 1, 3*s - 1, 3 * s, 3*s + 2, 4 * s, 5 * s}
}

func (p c09) Exec(c *fw.Ctx, u *fw.Unit) {
	mode, fillIdx, sd, depth := u.Int(0), int(u.Int(1)), u.Int(2), int(u.Int(3))
	uu := *u
	uu.I = u.I[4:]
	req := reqOfUnit(&uu)
	o := req.call()
	if o.panic != nil || o.err != nil || o.bc == nil {
		c.Inconclusive(fmt.Sprintf("source %s could not be encoded: %v %v", req, o.err, o.panic))
		return
	}
	src := o.bc
	r := rngFor(sd, "c09exec")
	sb := src.Bounds()
	w0, h0 := sb.Dx(), sb.Dy()
	dims := src.Metadata().Dimensions
	c.Cover("source_family", req.Fam)
	c.Cover("source_dims", fmt.Sprintf("%dD", dims))

	doScale := func(s barcode.Barcode, w, h int, fi int) (barcode.Barcode, error, any, color.Color) {
		var res barcode.Barcode
		var err error
		var fill color.Color
		pv, _ := fw.Call(func() {
			if c09Fills[fi] == nil {
				if bcs, ok := s.(barcode.BarcodeColor); ok {
					fill = bcs.ColorScheme().Background
				} else {
					fill = color.White
				}
				res, err = barcode.Scale(s, w, h)
			} else {
				fill = c09Fills[fi]
				res, err = barcode.ScaleWithFill(s, w, h, fill)
			}
		})
		return res, err, pv, fill
	}
	check := func(s barcode.Barcode, w, h, fi int, chain string) barcode.Barcode {
		c.Eval()
		inner := fmt.Sprintf("%s src=%dx%d %s -> %dx%d fill#%d", req, s.Bounds().Dx(), s.Bounds().Dy(), chain, w, h, fi)
		c.Step(func() string { return inner })
		res, err, pv, fill := doScale(s, w, h, fi)
		entry := "ScaleWithFill"
		if c09Fills[fi] == nil {
			entry = "Scale"
		}
		if pv != nil {
			c.Violation("scale/panic", fmt.Sprintf("%s panics: %v", entry, pv), inner, "")
			return nil
		}
		msg, full := scaleModel(s, res, err, w, h, fill)
		if msg != "" {
			key := "scale/model"
			if err != nil || res == nil {
				key = "scale/acceptance"
			}
			c.Violation(key+fmt.Sprintf("/%dD", s.Metadata().Dimensions), msg, inner, "")
			return nil
		}
		if full {
			c.Nontrivial(req.Key(), chain, w, h, fi)
			c.Cover("fill", fmt.Sprintf("%T", fill))
			c.Cover("residue(w mod w0 == 0, odd slack)", fmt.Sprintf("%v,%v", w%s.Bounds().Dx() == 0, (w-(w/s.Bounds().Dx())*s.Bounds().Dx())%2 == 1))
			if r.Intn(400) == 0 {
				c.Sample(map[string]any{"source": req.String(), "source_size": []int{s.Bounds().Dx(), s.Bounds().Dy()}, "chain": chain, "w": w, "h": h, "fill": fmt.Sprintf("%#v", fill)})
			}
			return res
		}
		c.Cover("rejected_too_small", fmt.Sprintf("%dD", s.Metadata().Dimensions))
		return nil
	}

	switch mode {
	case 0: // full window
		if dims == 1 {
			for w := 1; w <= 3*w0+3; w++ {
				for _, h := range []int{1, 2, 7} {
					check(src, w, h, fillIdx, "")
				}
			}
		} else {
			lim := 3*max(w0, h0) + 3
			if lim > 100 {
				lim = 100
			}
			for w := 1; w <= lim; w++ {
				for h := 1; h <= lim; h++ {
					check(src, w, h, fillIdx, "")
				}
			}
		}
	case 1: // boundary grid + random
		ws, hs := gridSizes(w0), gridSizes(h0)
		if dims == 1 {
			hs = []int{1, 3, 40}
		}
		for _, w := range ws {
			for _, h := range hs {
				if w >= 1 && h >= 1 && w*h <= 400000 {
					check(src, w, h, fillIdx, "")
				}
			}
		}
		for i := 0; i < 12; i++ {
			w, h := 1+r.Intn(3*w0+3), 1+r.Intn(3*h0+3)
			if dims == 1 {
				h = 1 + r.Intn(30)
			}
			if w*h <= 400000 {
				check(src, w, h, fillIdx, "")
			}
		}
	case 3: // factor sweep: sd..depth are the factor range here
		for f := int(sd); f <= depth; f++ {
			if dims == 1 {
				check(src, f*w0, 2, fillIdx, "")
				check(src, f*w0+f-1, 1, fillIdx, "")
			} else {
				check(src, f*w0, f*h0, fillIdx, "")
				check(src, f*w0+f-1, f*h0+1, fillIdx, "")
				if f%7 == 0 {
					check(src, f*w0+3, (f+1)*h0, fillIdx, "")
				}
			}
		}
	case 5: // enormous requests: nothing is materialised, so they are ordinary enlargements
		big := []int{1 << 31, 1<<31 + 7, 1<<32 - 1, 1 << 40, 1<<40 + 12345, 1<<53 - 1, 1<<53 + 1, 1<<62 + 3, math.MaxInt64 - 1, math.MaxInt64}
		small := []int{1, h0 - 1, h0, h0 + 1, 3*h0 + 1, 10*h0 + 5, 4097}
		smallW := []int{1, w0 - 1, w0, w0 + 1, 3*w0 + 1, 10*w0 + 5, 4097 + w0}
		for _, b := range big {
			for _, s := range small {
				if s >= 1 {
					check(src, b, s, fillIdx, "")
				}
			}
			for _, s := range smallW {
				if s >= 1 {
					check(src, s, b, fillIdx, "")
				}
			}
			check(src, b, b, fillIdx, "")
			check(src, b, big[r.Intn(len(big))], r.Intn(len(c09Fills)), "")
		}
		c.Cover("enormous_requests", fmt.Sprintf("%dD", dims))
	case 6: // chains through a large intermediate image
		mids := [][2]int{{65535, 65535}, {65536, 65536}, {70000, 70000}, {1<<17 + 3, 1 << 16}, {1<<20 - 1, 99999}, {66000, 3*h0 + 1}, {3*w0 + 2, 66000}}
		for _, m := range mids {
			mw, mh := m[0], m[1]
			if dims == 1 {
				mh = 1 + r.Intn(4)
			}
			if mw < w0 || (dims != 1 && mh < h0) {
				continue
			}
			mid := check(src, mw, mh, fillIdx, "")
			if mid == nil {
				continue
			}
			ch := fmt.Sprintf("[%dx%d f%d]", mw, mh, fillIdx)
			for _, t := range [][2]int{{2 * mw, 2 * mh}, {mw + 5, mh + 1}, {2*mw + 1, 3 * mh}, {1 << 20, 1 << 20}, {1<<31 + 1, 1 << 31}} {
				if t[0] >= mw && t[1] >= mh {
					check(mid, t[0], t[1], r.Intn(len(c09Fills)), ch)
				}
			}
		}
		c.Cover("chain_through_large_intermediate", fmt.Sprintf("%dD", dims))
	case 4: // chains through an exact, padding-free intermediate
		for k := 2; k <= 4; k++ {
			hh := k * h0
			if dims == 1 {
				hh = 2
			}
			mid := check(src, k*w0, hh, fillIdx, "")
			if mid == nil {
				continue
			}
			ch := fmt.Sprintf("[%dx%d exact]", k*w0, hh)
			for _, w2 := range []int{k*w0 - 1, k * w0, k*w0 + 1, k * w0 * 3 / 2, (k + 1) * w0, 2*k*w0 - 1, 2 * k * w0, 2*k*w0 + k, w0} {
				h2 := hh * w2 / (k * w0)
				if dims == 1 || h2 < 1 {
					h2 = 1 + r.Intn(3)
				}
				if w2 >= 1 && w2*h2 <= 600000 {
					check(mid, w2, h2, r.Intn(len(c09Fills)), ch)
					check(mid, w2, hh, fillIdx, ch)
				}
			}
		}
	case 2: // chains
		for rep := 0; rep < 6; rep++ {
			cur := src
			chain := ""
			for d := 0; d < depth && cur != nil; d++ {
				cb := cur.Bounds()
				var w, h int
				switch r.Intn(4) {
				case 0:
					w, h = cb.Dx(), cb.Dy()
				case 1:
					w, h = cb.Dx()+1+r.Intn(5), cb.Dy()+r.Intn(5)
				default:
					w, h = cb.Dx()*(1+r.Intn(2))+r.Intn(cb.Dx()), cb.Dy()*(1+r.Intn(2))+r.Intn(cb.Dy()+1)
				}
				if cur.Metadata().Dimensions == 1 {
					h = 1 + r.Intn(6)
				}
				if w*h > 600000 {
					break
				}
				fi := fillIdx
				if d > 0 {
					fi = r.Intn(len(c09Fills))
				}
				next := check(cur, w, h, fi, chain)
				chain += fmt.Sprintf("[%dx%d f%d]", w, h, fi)
				cur = next
				if next != nil {
					c.Cover("chain_depth_checked", fmt.Sprint(d+1))
				}
			}
		}
	}
}
