package props

import "reflect"

func reflectValueOf(v any) bool {
	rv := reflect.ValueOf(v)
	switch rv.Kind() {
	case reflect.Ptr, reflect.Map, reflect.Slice, reflect.Func, reflect.Interface, reflect.Chan:
		return rv.IsNil()
	}
	return false
}
