package props

import (
	"fmt"
	"regexp"
	"unicode/utf8"

	"github.com/boombuler/barcode/twooffive"

	"verifharness/fw"
	"verifharness/refdec"
)

// C08 — Codabar and 2-of-5: symbols decode to the given digits/characters; the
// 2-of-5 check-digit helper appends the right digit.
type c08 struct{}

func init() { fw.Register(c08{}) }

func (c08) ID() string { return "C08" }
func (c08) Rule() string {
	return "ALL Codabar strings over its 20 characters up to length 4 (quick) / 6 (thorough) with the accept-iff rule ^[A-D][0-9$:/.+-]*[A-D]$ as part of the oracle, ALL digit strings up to length 5 (quick) / 7 (thorough) for standard and interleaved 2 of 5 and for AddCheckSum, random long strings, odd/even parity, multi-byte runes with even byte length; symbols read by independent narrow/wide decoders; non-trivial = accepted symbol fully decoded or AddCheckSum result verified, distinct by (entry, input)"
}
func (c08) Assumptions() []string {
	return []string{"Codabar 7-element words and 2-of-5 digit codes from the AIM specifications; wide elements may be 2 or 3 modules if consistent within a symbol (refdec/onedim.go)"}
}

const codabarAB = "0123456789-$:/.+ABCD"

func (c08) Gen(tier string, seed int64) []fw.Unit {
	var us []fw.Unit
	cbLen, dLen := int64(5), int64(6)
	if tier == "thorough" {
		cbLen, dLen = 6, 7
	}
	for a := int64(0); a < 20; a++ {
		for b := int64(0); b < 20; b++ {
			us = append(us, fw.U("codabar.exh", nil, "exhaustive", a, b, cbLen))
		}
	}
	for d := int64(0); d < 10; d++ {
		us = append(us, fw.U("2of5.exh", nil, "exhaustive", d, dLen))
	}
	r := rngFor(seed, "C08")
	n := 60
	if tier == "thorough" {
		n = 400
	}
	for i := 0; i < n; i++ {
		us = append(us, fw.U("c08.random", nil, "random", r.Int63(), 500))
	}
	us = append(us, fw.U("c08.hostile", nil, "hostile", r.Int63()))
	us = append(us, fw.U("c08.long", nil, "very-long", r.Int63()))
	return us
}

var codabarRule = regexp.MustCompile(`^[A-D][0-9$:/.+\-]*[A-D]$`)

func codabarCheck(c *fw.Ctx, s string) {
	c.Eval()
	req := Req{Fam: "codabar", S: []byte(s), Scheme: -1}
	inner := req.String()
	c.Step(func() string { return inner })
	if c.Res().Evals%11 == 0 {
		poison("codabar", false)
	}
	o := req.call()
	valid := codabarRule.MatchString(s)
	if !wellFormed(c, "codabar.Encode", inner, &o) {
		if o.panic == nil && o.err != nil && valid {
			c.Violation("codabar/rejected", "valid Codabar text rejected: "+o.err.Error(), inner, "")
		}
		return
	}
	if !valid {
		c.Violation("codabar/accepted-invalid", "text is not start letter, body, stop letter but was accepted", inner, "")
		return
	}
	retainObserve(c, "codabar", o.bc, inner, 3)
	bits, err := row1D(o.bc)
	if err != nil {
		c.Violation("codabar/image", err.Error(), inner, "")
		return
	}
	dec, err := refdec.DecodeCodabar(bits)
	if err != nil {
		c.Violation("codabar/"+refdec.RuleOf(err), err.Error(), inner, refdec.BitString(bits))
		return
	}
	if dec != s {
		c.Violation("codabar/roundtrip", fmt.Sprintf("symbol decodes to %q", dec), inner, refdec.BitString(bits))
		return
	}
	c.Nontrivial("codabar", s)
	for i := 0; i < len(s); i++ {
		c.Cover("codabar_char", s[i:i+1])
	}
	if c.Res().Evals%2003 == 0 {
		c.Sample(map[string]any{"entry": "codabar.Encode", "text": s, "modules": len(bits)})
	}
}

func twoOfFiveCheck(c *fw.Ctx, s string, interleaved bool) {
	c.Eval()
	il := int64(0)
	if interleaved {
		il = 1
	}
	req := Req{Fam: "2of5", S: []byte(s), I: []int64{il}, Scheme: -1}
	inner := req.String()
	c.Step(func() string { return inner })
	if c.Res().Evals%5 == 0 {
		poison("2of5", false)
	}
	o := req.call()
	digits := allDigits(s) && len(s) > 0
	valid := digits && (!interleaved || len(s)%2 == 0)
	if !wellFormed(c, "twooffive.Encode", inner, &o) {
		if o.panic == nil && o.err != nil && valid {
			c.Violation("2of5/rejected", "valid digit string rejected: "+o.err.Error(), inner, "")
		}
		return
	}
	if !valid {
		why := "non-digit or empty content"
		if digits {
			why = "odd number of digits in interleaved mode"
		} else if utf8.RuneCountInString(s) != len(s) {
			why = "multi-byte rune in content"
		}
		c.Violation(fmt.Sprintf("2of5/accepted-invalid/interleaved=%v", interleaved), why+" was accepted", inner, "")
		return
	}
	retainObserve(c, "2of5", o.bc, inner, 3)
	bits, err := row1D(o.bc)
	if err != nil {
		c.Violation("2of5/image", err.Error(), inner, "")
		return
	}
	dec, err := refdec.DecodeTwoOfFive(bits, interleaved)
	if err != nil {
		c.Violation("2of5/"+refdec.RuleOf(err), err.Error(), inner, refdec.BitString(bits))
		return
	}
	if dec != s {
		c.Violation(fmt.Sprintf("2of5/roundtrip/interleaved=%v", interleaved), fmt.Sprintf("symbol decodes to %q", dec), inner, refdec.BitString(bits))
		return
	}
	c.Nontrivial("2of5", interleaved, s)
	c.Cover("2of5_variant", fmt.Sprintf("interleaved=%v", interleaved))
	if c.Res().Evals%2003 == 0 {
		c.Sample(map[string]any{"entry": "twooffive.Encode", "digits": s, "interleaved": interleaved, "modules": len(bits)})
	}
}

func addCheckSumCheck(c *fw.Ctx, s string) {
	c.Eval()
	inner := "AddCheckSum(" + short(s) + ")"
	c.Step(func() string { return inner })
	var out string
	var err error
	pv, st := fw.Call(func() { out, err = twooffive.AddCheckSum(s) })
	if pv != nil {
		c.Violation("panic:twooffive.AddCheckSum", fmt.Sprintf("panic: %v", pv), inner, st)
		return
	}
	valid := allDigits(s) && len(s) > 0
	if err != nil {
		if valid {
			c.Violation("addchecksum/rejected", "digit string rejected: "+err.Error(), inner, "")
		}
		return
	}
	if !valid {
		c.Violation("addchecksum/accepted-invalid", fmt.Sprintf("non-digit or empty input accepted, result %q", out), inner, "")
		return
	}
	want := s + string(rune('0'+refdec.Mod10Weighted31(s)))
	if out != want {
		c.Violation("addchecksum/value", fmt.Sprintf("result %q, the digit that makes the 3-1 weighted sum a multiple of ten gives %q", out, want), inner, "")
		return
	}
	c.Nontrivial("addchecksum", s)
	c.Cover("addchecksum_digit", out[len(out)-1:])
}

func (p c08) Exec(c *fw.Ctx, u *fw.Unit) {
	switch u.Fn {
	case "codabar.exh":
		a, b, maxLen := int(u.Int(0)), int(u.Int(1)), int(u.Int(2))
		buf := make([]byte, maxLen)
		buf[0] = codabarAB[a]
		var rec func(pos int)
		rec = func(pos int) {
			codabarCheck(c, string(buf[:pos]))
			if pos == maxLen {
				return
			}
			for k := 0; k < 20; k++ {
				buf[pos] = codabarAB[k]
				rec(pos + 1)
			}
		}
		if b < 0 {
			if a == 0 {
				codabarCheck(c, "")
			}
			rec(1)
		} else {
			if b == 0 {
				codabarCheck(c, string(buf[:1]))
				if a == 0 {
					codabarCheck(c, "")
				}
			}
			buf[1] = codabarAB[b]
			rec(2)
		}
		c.Cover("codabar_exhaustive_to_length", fmt.Sprint(maxLen))
	case "2of5.exh":
		d, maxLen := int(u.Int(0)), int(u.Int(1))
		buf := make([]byte, maxLen)
		buf[0] = byte('0' + d)
		var rec func(pos int)
		rec = func(pos int) {
			s := string(buf[:pos])
			twoOfFiveCheck(c, s, false)
			twoOfFiveCheck(c, s, true)
			addCheckSumCheck(c, s)
			if pos == maxLen {
				return
			}
			for k := 0; k < 10; k++ {
				buf[pos] = byte('0' + k)
				rec(pos + 1)
			}
		}
		if d == 0 {
			twoOfFiveCheck(c, "", false)
			twoOfFiveCheck(c, "", true)
			addCheckSumCheck(c, "")
		}
		rec(1)
		c.Cover("2of5_exhaustive_to_length", fmt.Sprint(maxLen))
	case "c08.random":
		r := rngFor(u.Int(0), "c08rnd")
		for i := 0; i < int(u.Int(1)); i++ {
			switch r.Intn(4) {
			case 0:
				s := []byte{pick(r, []byte("ABCD"))}
				s = append(s, randBytes(r, r.Intn(60), []byte("0123456789-$:/.+"))...)
				s = append(s, pick(r, []byte("ABCD")))
				if r.Intn(6) == 0 {
					s[r.Intn(len(s))] = pick(r, []byte("ABCDabcd *E\n"))
				}
				codabarCheck(c, string(s))
			case 1:
				twoOfFiveCheck(c, string(randBytes(r, 1+r.Intn(60), digitsAB)), false)
			case 2:
				twoOfFiveCheck(c, string(randBytes(r, 1+r.Intn(60), digitsAB)), true)
			default:
				addCheckSumCheck(c, string(randBytes(r, 1+r.Intn(40), digitsAB)))
			}
		}
	case "c08.long":
		r := rngFor(u.Int(0), "c08long")
		for _, n := range []int{61, 100, 127, 128, 129, 254, 255, 256, 257, 258, 300, 511, 512, 513, 1000, 2000, 4100, 8200} {
			for _, ab := range []string{"0123456789-$:/.+", ":/.+", "0", "9", "-$"} {
				s := []byte{pick(r, []byte("ABCD"))}
				s = append(s, randBytes(r, n, []byte(ab))...)
				s = append(s, pick(r, []byte("ABCD")))
				codabarCheck(c, string(s))
			}
			for _, ab := range []string{"0123456789", "9", "0", "19"} {
				d := string(randBytes(r, n+n%2, []byte(ab)))
				twoOfFiveCheck(c, d, false)
				twoOfFiveCheck(c, d, true)
				addCheckSumCheck(c, d)
				addCheckSumCheck(c, d[1:])
			}
		}
	case "c08.hostile":
		r := rngFor(u.Int(0), "c08h")
		bads := []string{"é", "٣", "a", " ", "+", "-", "\x00", "\xff", "１", "€", "𝟙"}
		for n := 0; n <= 8; n++ {
			for _, bad := range bads {
				for pos := 0; pos <= n; pos++ {
					d := string(randBytes(r, n, digitsAB))
					s := d[:pos] + bad + d[pos:]
					twoOfFiveCheck(c, s, false)
					twoOfFiveCheck(c, s, true)
					addCheckSumCheck(c, s)
					codabarCheck(c, "A"+s+"B")
				}
			}
		}
		for _, base := range []string{"A1234B", "C$:/.+-D"} {
			for _, d := range decorate([]byte(base)) {
				codabarCheck(c, string(d))
			}
		}
		for _, base := range []string{"1234", "12"} {
			for _, d := range decorate([]byte(base)) {
				twoOfFiveCheck(c, string(d), false)
				twoOfFiveCheck(c, string(d), true)
				addCheckSumCheck(c, string(d))
			}
		}
		// every ASCII byte in a data position
		for b := 0; b < 128; b++ {
			codabarCheck(c, "A"+string(rune(b))+"B")
			codabarCheck(c, "C12"+string(rune(b))+"3D")
		}
		for _, s := range []string{"A", "AB", "AA", "A1", "1A", "A1B2", "A1BA1B", "A1B\n", "\nA1B", "a1b", "E1E", "A*B", "A B", "!", "A!B", "A12B\x00", "xA12B", "A12Bx"} {
			codabarCheck(c, s)
		}
	}
}
