package props

import (
	"fmt"

	"github.com/boombuler/barcode"
	"github.com/boombuler/barcode/ean"

	"verifharness/fw"
	"verifharness/refdec"
)

// C06 — EAN-8/EAN-13: digits, parity and check digit are encoded and validated.
type c06 struct{}

func init() { fw.Register(c06{}) }

func (c06) ID() string { return "C06" }
func (c06) Rule() string {
	return "quick: seed-determined random 7/8/12/13-digit strings, the 1200-cell covering set (first digit x position x digit), malformed strings (non-digits at every position, multi-byte runes with byte length 7/8/12/13, lengths 0..14); thorough: additionally ALL 10^7 seven-digit and ALL 10^8 eight-digit strings and 5e6 EAN-13 numbers; oracle = independent GS1 check digit, accept-iff rule, guard bars, L/G/R decode with parity-coded first digit, Content(), kind; non-trivial = accepted symbol fully decoded (distinct by input; enumerations are distinct by construction)"
}
func (c06) Assumptions() []string {
	return []string{"L table and parity words from the GS1 General Specifications; R = complement of L, G = mirrored R (refdec/onedim.go)"}
}

func (c06) Gen(tier string, seed int64) []fw.Unit {
	var us []fw.Unit
	r := rngFor(seed, "C06")
	us = append(us, fw.U("ean.cover", nil, "covering-set", r.Int63()))
	us = append(us, fw.U("ean.malformed", nil, "malformed", r.Int63()))
	n := 16
	for i := 0; i < n; i++ {
		us = append(us, fw.U("ean.random", nil, "random", r.Int63(), 12500))
	}
	const blk = 1000000
	for lo := int64(0); lo < 10000000; lo += blk {
		us = append(us, fw.U("ean.range", nil, "exhaustive-7", 7, lo, lo+blk))
	}
	for i := 0; i < 10; i++ {
		us = append(us, fw.U("ean.random13", nil, "random-13", r.Int63(), 100000))
	}
	if tier == "thorough" {
		for lo := int64(0); lo < 100000000; lo += blk {
			us = append(us, fw.U("ean.range", nil, "exhaustive-8", 8, lo, lo+blk))
		}
		for i := 0; i < 200; i++ {
			us = append(us, fw.U("ean.random13", nil, "random-13", r.Int63(), 100000))
		}
	}
	return us
}

func allDigits(s string) bool {
	for i := 0; i < len(s); i++ {
		if s[i] < '0' || s[i] > '9' {
			return false
		}
	}
	return true
}

// eanExpect is the acceptance rule of the property: completed number or "".
func eanExpect(s string) string {
	if !allDigits(s) {
		return ""
	}
	switch len(s) {
	case 7, 12:
		return s + string(rune('0'+refdec.GS1CheckDigit(s)))
	case 8, 13:
		if int(s[len(s)-1]-'0') == refdec.GS1CheckDigit(s[:len(s)-1]) {
			return s
		}
	}
	return ""
}

// eanCheck runs one input through the real encoder and the monitor. unique tells
// whether the caller enumerates (distinct by construction).
func eanCheck(c *fw.Ctx, s string, unique bool) {
	c.Eval()
	if c.Res().Evals%64 == 0 {
		poison("ean", false)
	}
	var bc barcode.BarcodeIntCS
	var err error
	pv, st := fw.Call(func() {
		if PreferWithColor {
			bc, err = ean.EncodeWithColor(s, barcode.ColorScheme16)
		} else {
			bc, err = ean.Encode(s)
		}
	})
	if pv != nil {
		c.Violation("panic:ean.Encode", fmt.Sprintf("panic: %v", pv), short(s), st)
		return
	}
	want := eanExpect(s)
	if bc == nil {
		if err == nil {
			c.Violation("nil-nil:ean.Encode", "returned (nil, nil)", short(s), "")
			return
		}
		if want != "" {
			c.Violation("ean/rejected", "valid number rejected: "+err.Error(), short(s), "")
		}
		return
	}
	if err != nil {
		c.Violation("both:ean.Encode", "barcode and error", short(s), "")
		return
	}
	if want == "" {
		c.Violation("ean/accepted-invalid", fmt.Sprintf("input violates the length/digit/check-digit rule but was accepted (Content %q)", bc.Content()), short(s), "")
		return
	}
	if bc.Content() != want {
		c.Violation("ean/content", fmt.Sprintf("Content() = %q, want %q", bc.Content(), want), short(s), "")
		return
	}
	kind, mods := barcode.TypeEAN8, 67
	if len(want) == 13 {
		kind, mods = barcode.TypeEAN13, 95
	}
	if md := bc.Metadata(); md.CodeKind != kind || md.Dimensions != 1 {
		c.Violation("ean/kind", fmt.Sprintf("Metadata %v, want kind %q 1D", md, kind), short(s), "")
		return
	}
	retainObserve(c, "ean", bc, s, 2)
	bits, e2 := row1D(bc)
	if e2 != nil {
		c.Violation("ean/image", e2.Error(), short(s), "")
		return
	}
	if len(bits) != mods {
		c.Violation("ean/modules", fmt.Sprintf("%d modules, want %d", len(bits), mods), short(s), "")
		return
	}
	dec, e3 := refdec.DecodeEAN(bits)
	if e3 != nil {
		c.Violation("ean/"+refdec.RuleOf(e3), e3.Error(), short(s), refdec.BitString(bits))
		return
	}
	if dec != want {
		c.Violation("ean/roundtrip", fmt.Sprintf("symbol decodes to %s, want %s", dec, want), short(s), refdec.BitString(bits))
		return
	}
	if unique {
		c.NontrivialUnique()
	} else {
		c.Nontrivial(s)
	}
}

func (p c06) Exec(c *fw.Ctx, u *fw.Unit) {
	switch u.Fn {
	case "ean.range":
		n, lo, hi := int(u.Int(0)), u.Int(1), u.Int(2)
		buf := make([]byte, n)
		for v := lo; v < hi; v++ {
			x := v
			for i := n - 1; i >= 0; i-- {
				buf[i] = byte('0' + x%10)
				x /= 10
			}
			if c.Fine {
				s := string(buf)
				c.Step(func() string { return s })
			}
			eanCheck(c, string(buf), true)
		}
		c.Cover("exhaustive_block", fmt.Sprintf("%d-digit", n))
		if lo == 0 {
			c.Sample(map[string]any{"enumeration": fmt.Sprintf("all %d-digit strings in [%d,%d)", n, lo, hi)})
		}
	case "ean.random", "ean.random13":
		r := rngFor(u.Int(0), "eanrnd")
		for i := 0; i < int(u.Int(1)); i++ {
			n := pick(r, []int{7, 8, 12, 13})
			if u.Fn == "ean.random13" {
				n = pick(r, []int{12, 13})
			}
			b := randBytes(r, n, digitsAB)
			if (n == 8 || n == 13) && r.Intn(3) != 0 {
				b[n-1] = byte('0' + refdec.GS1CheckDigit(string(b[:n-1])))
			}
			s := string(b)
			c.Step(func() string { return s })
			eanCheck(c, s, false)
			c.CoverN("length", n)
			if n >= 12 {
				c.Cover("ean13_first_digit", s[:1])
			}
			if i%4000 == 0 {
				c.Sample(map[string]any{"input": s, "expect": eanExpect(s)})
			}
		}
	case "ean.cover":
		r := rngFor(u.Int(0), "eancov")
		for f := 0; f < 10; f++ {
			for pos := 1; pos < 12; pos++ {
				for d := 0; d < 10; d++ {
					b := randBytes(r, 12, digitsAB)
					b[0] = byte('0' + f)
					b[pos] = byte('0' + d)
					eanCheck(c, string(b), false)
					c.Cover("ean13_cell(first,pos)", fmt.Sprintf("%d,%d", f, pos))
				}
			}
			// the check digit position takes every value too
			for d := 0; d < 10; d++ {
				for try := 0; try < 200; try++ {
					b := randBytes(r, 12, digitsAB)
					b[0] = byte('0' + f)
					if refdec.GS1CheckDigit(string(b)) == d {
						eanCheck(c, string(b), false)
						eanCheck(c, string(b)+string(rune('0'+d)), false)
						break
					}
				}
			}
		}
		for pos := 0; pos < 7; pos++ {
			for d := 0; d < 10; d++ {
				b := randBytes(r, 7, digitsAB)
				b[pos] = byte('0' + d)
				eanCheck(c, string(b), false)
			}
		}
	case "ean.malformed":
		r := rngFor(u.Int(0), "eanmal")
		for n := 0; n <= 14; n++ {
			for k := 0; k < 20; k++ {
				eanCheck(c, string(randBytes(r, n, digitsAB)), false)
			}
			for pos := 0; pos < n; pos++ {
				for _, bad := range []string{"a", "B", " ", "+", "-", "/", ":", "\x00", "\xff", "٣", "é"} {
					b := string(randBytes(r, n, digitsAB))
					s := b[:pos] + bad + b[pos+1:]
					eanCheck(c, s, false)
					// variants whose BYTE length is 7/8/12/13 although a rune is multi-byte
					for _, tl := range []int{7, 8, 12, 13} {
						if len(s) > tl {
							eanCheck(c, s[:tl], false)
						}
					}
				}
			}
		}
		for _, base := range []string{"1234567", "12345670", "123456789012", "4006381333931"} {
			for _, d := range decorate([]byte(base)) {
				eanCheck(c, string(d), false)
			}
		}
		for _, tl := range []int{7, 8, 12, 13} {
			for k := 0; k < 50; k++ {
				// wrong check digits: all nine wrong values
				b := randBytes(r, tl, digitsAB)
				if tl == 8 || tl == 13 {
					good := refdec.GS1CheckDigit(string(b[:tl-1]))
					for d := 0; d < 10; d++ {
						b[tl-1] = byte('0' + d)
						eanCheck(c, string(b), false)
						if d != good {
							c.Cover("wrong_check_digit_rejected_probe", fmt.Sprint(tl))
						}
					}
				}
			}
		}
	}
}
