package props

import (
	"fmt"
	"math"
	"strings"

	"github.com/boombuler/barcode/utils"

	"verifharness/fw"
)

// C18 — BitList behaves as an append-only bit sequence.
// History + executable model: the model is []bool.
type c18 struct{}

func init() { fw.Register(c18{}) }

func (c18) ID() string { return "C18" }
func (c18) Rule() string {
	return "histories of BitList operations replayed against a []bool model: (a) every operation sequence over a reduced alphabet up to a bound (exhaustive), (b) seed-determined random histories started at lengths around word and growth boundaries; non-trivial = a history whose final complete comparison (all bits, GetBytes, IterateBytes) ran; distinct by history hash"
}

const c18Ops = 11

var c18Starts = []int{-1, 0, 1, 31, 32, 33} // -1: zero value new(BitList)

func (c18) Gen(tier string, seed int64) []fw.Unit {
	var us []fw.Unit
	depth := int64(6)
	if tier == "thorough" {
		depth = 7
	}
	for si := range c18Starts {
		for op := 0; op < c18Ops; op++ {
			us = append(us, fw.U("bitlist.exh", nil, "exhaustive", int64(si), int64(op), depth))
		}
	}
	r := rngFor(seed, "C18")
	us = append(us, fw.U("bitlist.batch", nil, "batch", r.Int63()))
	nrand := 160
	maxOps := 20000
	if tier == "thorough" {
		nrand = 400
		maxOps = 100000
	}
	starts := []int{0, 0, 1, 31, 32, 33, 63, 64, 65, 4064, 4090, 4095, 4096, 4097, 8160, 8191, 8192, 16383, 16384, 32767, 32768, 32769,
		65535, 65536, 98303, 98304, 131071, 131072, 163840, 30000, 100000}
	for i := 0; i < nrand; i++ {
		st := starts[i%len(starts)]
		if i >= len(starts) && r.Intn(3) == 0 {
			st = st - r.Intn(40)
			if st < 0 {
				st = 0
			}
		}
		n := 200 + r.Intn(maxOps)
		zero := int64(0)
		if st == 0 && i%2 == 0 {
			zero = 1
		}
		us = append(us, fw.U("bitlist.rand", nil, "random", int64(st), int64(n), r.Int63(), zero))
	}
	return us
}

type blHist struct {
	bl    *utils.BitList
	model []bool
	trace []string
	c     *fw.Ctx
	bad   bool
}

func (h *blHist) fail(op, msg string) {
	if h.bad {
		return
	}
	h.bad = true
	tr := h.trace
	if len(tr) > 40 {
		tr = append([]string{"…"}, tr[len(tr)-40:]...)
	}
	h.c.Violation("bitlist:"+op, msg, strings.Join(tr, " "), "")
}

func (h *blHist) guardOp(op string, f func()) {
	pv, st := fw.Call(f)
	if pv != nil {
		h.fail(op, fmt.Sprintf("panic: %v", pv))
		_ = st
	}
}

func (h *blHist) checkLen(op string) {
	if h.bad {
		return
	}
	if h.bl.Len() != len(h.model) {
		h.fail(op, fmt.Sprintf("Len()=%d, model has %d bits", h.bl.Len(), len(h.model)))
	}
}

func (h *blHist) checkBit(op string, i int) {
	if h.bad || i < 0 || i >= len(h.model) {
		return
	}
	var got bool
	h.guardOp(op, func() { got = h.bl.GetBit(i) })
	if !h.bad && got != h.model[i] {
		h.fail(op, fmt.Sprintf("GetBit(%d)=%v, model %v (len %d)", i, got, h.model[i], len(h.model)))
	}
}

func packModel(m []bool) []byte {
	out := make([]byte, (len(m)+7)/8)
	for i, b := range m {
		if b {
			out[i/8] |= 0x80 >> uint(i%8)
		}
	}
	return out
}

func (h *blHist) checkBytes(op string) {
	if h.bad {
		return
	}
	want := packModel(h.model)
	var got []byte
	h.guardOp("GetBytes", func() { got = h.bl.GetBytes() })
	if h.bad {
		return
	}
	if len(got) != len(want) {
		h.fail("GetBytes", fmt.Sprintf("after %s: GetBytes returned %d bytes, model packs to %d", op, len(got), len(want)))
		return
	}
	for i := range want {
		if got[i] != want[i] {
			h.fail("GetBytes", fmt.Sprintf("after %s: GetBytes[%d]=%#02x, model %#02x (len %d bits)", op, i, got[i], want[i], len(h.model)))
			return
		}
	}
}

func (h *blHist) checkIter(op string) {
	if h.bad {
		return
	}
	want := packModel(h.model)
	var got []byte
	h.guardOp("IterateBytes", func() {
		for b := range h.bl.IterateBytes() {
			got = append(got, b)
			if len(got) > len(want)+8 {
				// keep draining so that no producer is left behind, but stop storing
				got = got[:len(want)+8]
			}
		}
	})
	if h.bad {
		return
	}
	if len(got) != len(want) {
		h.fail("IterateBytes", fmt.Sprintf("after %s: channel delivered %d bytes, model packs to %d", op, len(got), len(want)))
		return
	}
	for i := range want {
		if got[i] != want[i] {
			h.fail("IterateBytes", fmt.Sprintf("after %s: channel byte %d = %#02x, model %#02x", op, i, got[i], want[i]))
			return
		}
	}
}

func (h *blHist) full(op string) {
	h.checkLen(op)
	for i := range h.model {
		if h.bad {
			return
		}
		if h.bl.GetBit(i) != h.model[i] {
			h.fail(op, fmt.Sprintf("complete comparison: bit %d = %v, model %v (len %d)", i, !h.model[i], h.model[i], len(h.model)))
			return
		}
	}
	h.checkBytes(op)
	h.checkIter(op)
}

func newHist(c *fw.Ctx, start int) *blHist {
	h := &blHist{c: c}
	if start < 0 {
		h.bl = new(utils.BitList)
		h.trace = append(h.trace, "zero")
	} else {
		h.guardOp("NewBitList", func() { h.bl = utils.NewBitList(start) })
		h.model = make([]bool, start)
		h.trace = append(h.trace, fmt.Sprintf("new(%d)", start))
	}
	if !h.bad {
		h.checkLen("new")
	}
	return h
}

// apply one operation of the reduced alphabet.
func (h *blHist) applyReduced(op int) {
	n := len(h.model)
	switch op {
	case 0:
		h.trace = append(h.trace, "add0")
		h.guardOp("AddBit", func() { h.bl.AddBit(false) })
		h.model = append(h.model, false)
	case 1:
		h.trace = append(h.trace, "add1")
		h.guardOp("AddBit", func() { h.bl.AddBit(true) })
		h.model = append(h.model, true)
	case 2:
		h.trace = append(h.trace, "addbits(5,3)")
		h.guardOp("AddBits", func() { h.bl.AddBits(5, 3) })
		h.model = append(h.model, true, false, true)
	case 3:
		h.trace = append(h.trace, "addbyte(a5)")
		h.guardOp("AddByte", func() { h.bl.AddByte(0xA5) })
		h.model = append(h.model, true, false, true, false, false, true, false, true)
	case 4:
		h.trace = append(h.trace, "set(first,1)")
		if n > 0 {
			h.guardOp("SetBit", func() { h.bl.SetBit(0, true) })
			h.model[0] = true
		}
	case 5:
		h.trace = append(h.trace, "set(last,1)")
		if n > 0 {
			h.guardOp("SetBit", func() { h.bl.SetBit(n-1, true) })
			h.model[n-1] = true
		}
	case 6:
		h.trace = append(h.trace, "set(last,0)")
		if n > 0 {
			h.guardOp("SetBit", func() { h.bl.SetBit(n-1, false) })
			h.model[n-1] = false
		}
	case 7:
		h.trace = append(h.trace, "get(mid)")
		h.checkBit("GetBit", n/2)
		h.checkBit("GetBit", n-1)
	case 8:
		h.trace = append(h.trace, "bytes")
		h.checkBytes("bytes")
	case 9:
		h.trace = append(h.trace, "iterate")
		h.checkIter("iterate")
	case 10:
		h.trace = append(h.trace, "addbit(1,0,1,1)")
		h.guardOp("AddBit", func() { h.bl.AddBit(true, false, true, true) })
		h.model = append(h.model, true, false, true, true)
	}
	h.checkLen(h.trace[len(h.trace)-1])
}

func (p c18) Exec(c *fw.Ctx, u *fw.Unit) {
	switch u.Fn {
	case "bitlist.exh":
		si, first, depth := int(u.Int(0)), int(u.Int(1)), int(u.Int(2))
		seq := make([]int, depth)
		seq[0] = first
		var rec func(pos int)
		run := func(l int) {
			c.Eval()
			h := newHist(c, c18Starts[si])
			for i := 0; i < l && !h.bad; i++ {
				h.applyReduced(seq[i])
			}
			if !h.bad {
				h.full("end")
			}
			if !h.bad {
				c.NontrivialUnique()
			}
			c.ExtraMax("max_bits", int64(len(h.model)))
			if l == depth && seq[depth-1] == 0 && seq[1] == 3 {
				c.Sample(map[string]any{"history": strings.Join(h.trace, " "), "final_len": len(h.model)})
			}
		}
		rec = func(pos int) {
			run(pos) // every prefix is a history of its own
			if pos == depth {
				return
			}
			for op := 0; op < c18Ops; op++ {
				seq[pos] = op
				rec(pos + 1)
			}
		}
		c.Step(func() string { return fmt.Sprintf("start=%d first=%d", c18Starts[si], first) })
		rec(1)
		c.Cover("exhaustive_depth", fmt.Sprint(depth))
		c.Cover("start", fmt.Sprint(c18Starts[si]))
	case "bitlist.batch":
		// a single large AddBit batch onto lists of various lengths
		r := rngFor(u.Int(0), "blbatch")
		for _, st := range []int{-1, 0, 1, 31, 32, 33, 4000, 4095, 4096, 4097, 8191, 32767} {
			for _, nb := range []int{1, 31, 32, 33, 127, 4095, 4096, 4097, 4100, 5000, 8192, 8193, 9000, 12289, 16385, 40000, 70001} {
				c.Eval()
				h := newHist(c, st)
				bits := make([]bool, nb)
				for i := range bits {
					bits[i] = r.Intn(3) != 0
				}
				h.trace = append(h.trace, fmt.Sprintf("addbit(batch of %d)", nb))
				h.guardOp("AddBit", func() { h.bl.AddBit(bits...) })
				h.model = append(h.model, bits...)
				h.checkLen("batch")
				if !h.bad {
					h.applyReduced(3)
					h.full("end")
				}
				if !h.bad {
					c.Nontrivial("batch", st, nb)
				}
			}
		}
	case "bitlist.rand":
		st, n, sd := int(u.Int(0)), int(u.Int(1)), u.Int(2)
		r := rngFor(sd, "bl")
		c.Eval()
		start := st
		if u.Int(3) == 1 {
			start = -1
		}
		h := newHist(c, start)
		// random initial content through SetBit so that appends meet non-zero words
		for i := 0; i < len(h.model) && !h.bad; i += 1 + r.Intn(7) {
			h.guardOp("SetBit", func() { h.bl.SetBit(i, true) })
			h.model[i] = true
		}
		words0 := len(h.model) / 32
		for k := 0; k < n && !h.bad; k++ {
			ln := len(h.model)
			switch op := r.Intn(100); {
			case op < 1 && ln < 300000:
				// one variadic call with a large batch, not ending on a word boundary
				nb := pick(r, []int{33, 100, 1000, 4097, 5000, 8191, 10001, 33333})
				bits := make([]bool, nb)
				for i := range bits {
					bits[i] = r.Intn(2) == 1
				}
				h.trace = append(h.trace, fmt.Sprintf("addbit(batch of %d)", nb))
				h.guardOp("AddBit", func() { h.bl.AddBit(bits...) })
				h.model = append(h.model, bits...)
			case op < 30:
				nb := 1 + r.Intn(3)
				bits := make([]bool, nb)
				for i := range bits {
					bits[i] = r.Intn(2) == 1
				}
				h.trace = append(h.trace, fmt.Sprintf("addbit%v", bits))
				h.guardOp("AddBit", func() { h.bl.AddBit(bits...) })
				h.model = append(h.model, bits...)
			case op < 50:
				cnt := r.Intn(65)
				if r.Intn(8) == 0 {
					cnt = 65 + r.Intn(191) // count is a byte: up to 255 bits
				}
				v := int(r.Uint64())
				if r.Intn(4) == 0 {
					v = -v
				}
				if r.Intn(16) == 0 {
					v = []int{-1, 0, 1, math.MinInt64, math.MaxInt64, -2}[r.Intn(6)]
				}
				h.trace = append(h.trace, fmt.Sprintf("addbits(%d,%d)", v, cnt))
				h.guardOp("AddBits", func() { h.bl.AddBits(v, byte(cnt)) })
				for i := cnt - 1; i >= 0; i-- {
					// two's complement: bit i of an int, the sign for i >= 63
					if i >= 63 {
						h.model = append(h.model, v < 0)
					} else {
						h.model = append(h.model, (uint64(v)>>uint(i))&1 == 1)
					}
				}
				if cnt > 64 {
					c.Cover("addbits_count_above_64", fmt.Sprint(v < 0))
				}
			case op < 65:
				b := byte(r.Intn(256))
				h.trace = append(h.trace, fmt.Sprintf("addbyte(%02x)", b))
				h.guardOp("AddByte", func() { h.bl.AddByte(b) })
				for i := 7; i >= 0; i-- {
					h.model = append(h.model, (b>>uint(i))&1 == 1)
				}
			case op < 85:
				if ln > 0 {
					i := r.Intn(ln)
					if r.Intn(3) == 0 {
						i = ln - 1 - r.Intn(min(ln, 40))
					}
					v := r.Intn(2) == 1
					h.trace = append(h.trace, fmt.Sprintf("set(%d,%v)", i, v))
					h.guardOp("SetBit", func() { h.bl.SetBit(i, v) })
					h.model[i] = v
				}
			case op < 97:
				if ln > 0 {
					i := r.Intn(ln)
					h.trace = append(h.trace, fmt.Sprintf("get(%d)", i))
					h.checkBit("GetBit", i)
				}
			case op < 99:
				if ln < 20000 || r.Intn(20) == 0 {
					h.trace = append(h.trace, "bytes")
					h.checkBytes("bytes")
				}
			default:
				if ln < 20000 || r.Intn(20) == 0 {
					h.trace = append(h.trace, "iterate")
					h.checkIter("iterate")
				}
			}
			h.checkLen("op")
			// sampled comparison after every mutation
			if l2 := len(h.model); l2 > 0 {
				for j := 0; j < 4; j++ {
					h.checkBit("sampled", r.Intn(l2))
				}
				h.checkBit("sampled", l2-1)
				if l2 > 33 {
					h.checkBit("sampled", l2-33)
				}
			}
			if k%2000 == 1999 {
				h.full("checkpoint")
			}
		}
		if !h.bad {
			h.full("end")
		}
		if !h.bad {
			c.Nontrivial(u.Fn, u.I)
		}
		c.ExtraMax("max_bits", int64(len(h.model)))
		c.Extra("word_boundaries_crossed", int64(len(h.model)/32-words0))
		for _, g := range []int{4096, 8192, 16384, 32768, 65536, 98304, 131072, 163840, 196608} {
			if st < g && len(h.model) > g {
				c.Cover("growth_boundary_crossed", fmt.Sprint(g))
			}
		}
		c.Sample(map[string]any{"start_len": st, "zero_value": u.Int(3) == 1, "ops": n, "final_len": len(h.model), "first_ops": strings.Join(h.trace[:min(len(h.trace), 8)], " ")})
	}
}

func (c18) Assumptions() []string {
	return []string{
		"operations are used inside their documented domain: indices below Len; AddBits counts go up to 255 (the count is a byte) and bits above position 62 are the two's-complement sign of the int",
		"the reduced alphabet of the exhaustive part (11 operations, 6 start states) is representative for short histories; long histories are sampled, not enumerated",
	}
}
