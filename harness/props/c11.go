package props

import (
	"fmt"
	"image"
	"image/color"
	"image/draw"

	"github.com/boombuler/barcode"

	"verifharness/fw"
	"verifharness/refdec"
)

// C11 — Rendering contract: bounds, two colours, colour scheme, metadata, content.
type c11 struct{}

func init() { fw.Register(c11{}) }

func (c11) ID() string { return "C11" }
func (c11) Rule() string {
	return "all eleven encoder families (22 Encode/EncodeWithColor entry points) x colour schemes over Gray, Gray16, RGBA, NRGBA, CMYK, Alpha16, RGBA64 models with seed-chosen distinct fore/background (plus the library's four predefined schemes and the plain variants) x contents of every symbol size class; oracle: bounds origin and the size the decoded structure prescribes, every pixel identical (interface equality) to the scheme's foreground or background, ColorScheme()/ColorModel() report the scheme, module pattern equal to the plain variant's, Metadata kind/dimensions, Content() (EAN completed, Code 39/93 full-ASCII expansion); non-trivial = accepted request on which all of these ran, distinct by (request, scheme)"
}
func (c11) Assumptions() []string {
	return []string{"colour values compared with Go interface equality; 'black on white' for plain variants means RGBA() = (0,0,0,0xffff) / (0xffff,0xffff,0xffff,0xffff)"}
}

func (c11) Gen(tier string, seed int64) []fw.Unit {
	r := rngFor(seed, "C11")
	var us []fw.Unit
	n := 48
	if tier == "thorough" {
		n = 400
	}
	// QR mask selection must not look at colours: many contents under low-contrast,
	// inverted and odd schemes
	nq := 1500
	if tier == "thorough" {
		nq = 15000
	}
	for i := 0; i < nq; i++ {
		sch := int64(13*(1+r.Intn(300)) + []int{8, 9, 10, 8, 9, 7, 11, 8, 9, 12}[i%10])
		req := randomValidReq(r, "qr", sch)
		if len(req.S) > 120 {
			req.S = req.S[:40]
		}
		us = append(us, req.Unit("render", "qr-scheme-independence"))
	}
	for _, fam := range families {
		for i := 0; i < n; i++ {
			sch := int64(i % 12)
			if i >= 12 {
				sch = int64(4 + r.Intn(4000))
			}
			req := randomValidReq(r, fam, sch)
			us = append(us, req.Unit("render", "scheme"))
			if i%5 == 0 {
				p := req
				p.Scheme = -1
				us = append(us, p.Unit("render", "plain"))
			}
		}
	}
	// degenerate and unusual schemes for every family
	for _, fam := range families {
		for k := int64(0); k < degenerateSchemeClasses; k++ {
			for rep := 0; rep < 2; rep++ {
				us = append(us, randomValidReq(r, fam, degenerateSchemeBase+k).Unit("render", "degenerate-scheme"))
			}
		}
	}
	// size classes: large symbols under a scheme
	big := []Req{
		{Fam: "qr", S: randBytes(r, 2000, printAB), I: []int64{0, 0}, Scheme: 9},
		{Fam: "qr", S: randBytes(r, 500, digitsAB), I: []int64{3, 1}, Scheme: 12},
		{Fam: "datamatrix", S: randBytes(r, 1500, upperAB), Scheme: 11},
		{Fam: "aztec", S: randBytes(r, 1200, printAB), I: []int64{33, 0}, Scheme: 10},
		{Fam: "aztec", S: []byte("A"), I: []int64{33, -1}, Scheme: 13},
		{Fam: "aztec", S: []byte("A"), I: []int64{33, 32}, Scheme: 14},
		{Fam: "pdf417", S: randBytes(r, 1500, printAB), I: []int64{5}, Scheme: 12},
		{Fam: "code128", S: randBytes(r, 80, lowerAB), Scheme: 15},
		{Fam: "ean", S: []byte("12345670"), Scheme: 16},
		{Fam: "ean", S: []byte("4006381333931"), Scheme: 17},
	}
	for _, b := range big {
		us = append(us, b.Unit("render", "size-class"))
	}
	return us
}

func expectedKind(req Req, content string) (string, byte) {
	switch req.Fam {
	case "qr":
		return barcode.TypeQR, 2
	case "datamatrix":
		return barcode.TypeDataMatrix, 2
	case "aztec":
		return barcode.TypeAztec, 2
	case "pdf417":
		return barcode.TypePDF, 2
	case "code128", "code128nocs":
		return barcode.TypeCode128, 1
	case "code39":
		return barcode.TypeCode39, 1
	case "code93":
		return barcode.TypeCode93, 1
	case "codabar":
		return barcode.TypeCodabar, 1
	case "ean":
		if len(content) == 8 {
			return barcode.TypeEAN8, 1
		}
		return barcode.TypeEAN13, 1
	case "2of5":
		if req.int(0) != 0 {
			return barcode.Type2of5Interleaved, 1
		}
		return barcode.Type2of5, 1
	}
	return "", 0
}

func expectedContent(req Req) string {
	s := string(req.S)
	switch req.Fam {
	case "ean":
		if len(s) == 7 || len(s) == 12 {
			return s + string(rune('0'+refdec.GS1CheckDigit(s)))
		}
	case "code39":
		if req.int(1) != 0 {
			return refdec.Code39Expand(s)
		}
	case "code93":
		if req.int(1) != 0 {
			return refdec.Code93Expand(s)
		}
	}
	return s
}

// structuralSize returns the bounds the decoded structure prescribes, or an error
// text if the pattern does not decode.
func structuralSize(req Req, g *refdec.Grid) (w, h int, note string) {
	switch req.Fam {
	case "qr":
		res, err := refdec.DecodeQR(g)
		if err != nil {
			return 0, 0, err.Error()
		}
		return 17 + 4*res.Version, 17 + 4*res.Version, ""
	case "datamatrix":
		res, err := refdec.DecodeDataMatrix(g)
		if err != nil {
			return 0, 0, err.Error()
		}
		return res.Size, res.Size, ""
	case "aztec":
		res, err := refdec.DecodeAztec(g)
		if err != nil {
			return 0, 0, err.Error()
		}
		n := refdec.AztecSize(res.Compact, res.Layers)
		return n, n, ""
	case "pdf417":
		res, err := refdec.DecodePDF417(g)
		if err != nil {
			return 0, 0, err.Error()
		}
		return 17*(res.Cols+4) + 1, res.Rows * res.RowHeight, ""
	}
	return g.W, 1, ""
}

func (p c11) Exec(c *fw.Ctx, u *fw.Unit) {
	req := reqOfUnit(u)
	c.Eval()
	inner := req.String()
	c.Step(func() string { return inner })
	if c.Res().Evals%4 == 0 {
		poison(req.Fam, false)
	}
	o := req.call()
	if !wellFormed(c, req.entryName(), inner, &o) {
		if o.panic == nil && o.err != nil && req.Scheme >= 0 {
			// acceptance must not depend on the colour scheme
			pr := req
			pr.Scheme = -1
			if po := pr.call(); po.panic == nil && po.err == nil && po.bc != nil {
				c.Violation("render/"+req.Fam+"/rejected-under-scheme", "the WithColor variant refuses content that the plain variant accepts: "+o.err.Error(), inner, fmt.Sprintf("%#v", schemeOf(req.Scheme)))
			}
		}
		return
	}
	bc := o.bc
	var fgc, bgc color.Color
	var scheme barcode.ColorScheme
	if req.Scheme >= 0 {
		scheme = schemeOf(req.Scheme)
		fgc, bgc = scheme.Foreground, scheme.Background
	}
	fam := req.Fam
	b := bc.Bounds()
	if b.Min != (image.Point{}) {
		c.Violation("render/"+fam+"/bounds-origin", fmt.Sprintf("bounds %v do not start at (0,0)", b), inner, "")
		return
	}
	// pixels: exactly two colours
	var g *refdec.Grid
	var err error
	if req.Scheme >= 0 && sameColor(fgc, bgc) {
		// ink == paper: nothing to decode, but the request is legal; every pixel is that
		// colour, the scheme is reported, and the size equals the plain variant's
		pr := req
		pr.Scheme = -1
		po := pr.call()
		if po.bc == nil {
			c.Violation("render/"+fam+"/plain-differs", "plain variant failed where the WithColor variant succeeded", inner, "")
			return
		}
		if po.bc.Bounds() != b {
			c.Violation("render/"+fam+"/pattern-depends-on-scheme", fmt.Sprintf("bounds %v under the scheme, %v plain", b, po.bc.Bounds()), inner, "")
			return
		}
		for y := 0; y < b.Dy(); y++ {
			for x := 0; x < b.Dx(); x++ {
				if !sameColor(bc.At(x, y), fgc) {
					c.Violation("render/"+fam+"/pixel-not-in-scheme", fmt.Sprintf("pixel (%d,%d) = %#v is not the scheme's (single) colour", x, y, bc.At(x, y)), inner, "")
					return
				}
			}
		}
		if bcc, ok := bc.(barcode.BarcodeColor); !ok || !sameScheme(bcc.ColorScheme(), scheme) {
			c.Violation("render/"+fam+"/colorscheme", "ColorScheme() does not report the scheme passed", inner, "")
			return
		}
		c.Nontrivial(req.Key())
		c.Cover("colour_model", "ink==paper")
		return
	}
	if req.Scheme >= 0 {
		g, err = gridScheme(bc, fgc, bgc)
		if err != nil {
			c.Violation("render/"+fam+"/pixel-not-in-scheme", err.Error(), inner, fmt.Sprintf("scheme fg=%#v bg=%#v", fgc, bgc))
			return
		}
	} else {
		g, err = grid2D(bc)
		if err != nil {
			c.Violation("render/"+fam+"/pixel-not-black-white", err.Error(), inner, "")
			return
		}
	}
	// scheme reporting
	if req.Scheme >= 0 {
		if bcc, ok := bc.(barcode.BarcodeColor); !ok {
			c.Violation("render/"+fam+"/no-colorscheme-accessor", "barcode from a WithColor entry point does not report ColorScheme()", inner, "")
			return
		} else if got := bcc.ColorScheme(); !sameScheme(got, scheme) {
			c.Violation("render/"+fam+"/colorscheme", fmt.Sprintf("ColorScheme() = %#v, passed %#v", got, scheme), inner, "")
			return
		}
		if scheme.Model != nil && bc.ColorModel() != scheme.Model {
			c.Violation("render/"+fam+"/colormodel", "ColorModel() is not the scheme's model", inner, "")
			return
		}
	} else if bcc, ok := bc.(barcode.BarcodeColor); ok {
		s := bcc.ColorScheme()
		fd, fok := isBW(s.Foreground)
		bd, bok := isBW(s.Background)
		if !fok || !bok || !fd || bd {
			c.Violation("render/"+fam+"/plain-scheme", fmt.Sprintf("plain Encode reports scheme %#v, not black on white", s), inner, "")
			return
		}
	}
	// pattern must not depend on the scheme
	if req.Scheme >= 0 {
		pr := req
		pr.Scheme = -1
		po := pr.call()
		if po.bc == nil || po.err != nil || po.panic != nil {
			c.Violation("render/"+fam+"/plain-differs", fmt.Sprintf("plain variant failed (%v %v) where the WithColor variant succeeded", po.err, po.panic), inner, "")
			return
		}
		pg, perr := grid2D(po.bc)
		if perr != nil {
			c.Violation("render/"+fam+"/pixel-not-black-white", perr.Error(), pr.String(), "")
			return
		}
		if pg.W != g.W || pg.H != g.H {
			c.Violation("render/"+fam+"/pattern-depends-on-scheme", fmt.Sprintf("size %dx%d under the scheme, %dx%d plain", g.W, g.H, pg.W, pg.H), inner, "")
			return
		}
		for i := range g.Dark {
			if g.Dark[i] != pg.Dark[i] {
				c.Violation("render/"+fam+"/pattern-depends-on-scheme", fmt.Sprintf("module (%d,%d) differs between scheme and plain rendering", i%g.W, i/g.W), inner, "")
				return
			}
		}
		if po.bc.Content() != bc.Content() || po.bc.Metadata() != bc.Metadata() {
			c.Violation("render/"+fam+"/accessors-depend-on-scheme", "Content/Metadata differ between scheme and plain rendering", inner, "")
			return
		}
	}
	// the same request under the same colour model with ink and paper exchanged, and
	// then under the first scheme again, in this process: a result must carry the colours
	// of its own call, not those of an earlier call with the same model and size
	if req.Scheme >= 0 && req.Scheme < swappedSchemeBase {
		sr := req
		sr.Scheme += swappedSchemeBase
		so := sr.call()
		if so.panic != nil || so.err != nil || so.bc == nil {
			c.Violation("render/"+fam+"/rejected-under-scheme", fmt.Sprintf("refused or panicked with ink and paper exchanged: %v %v", so.err, so.panic), sr.String(), "")
			return
		}
		sg, serr := gridScheme(so.bc, bgc, fgc)
		if serr != nil {
			c.Violation("render/"+fam+"/pixel-not-in-scheme", "with ink and paper exchanged after a call with the same model: "+serr.Error(), sr.String(), fmt.Sprintf("scheme fg=%#v bg=%#v", bgc, fgc))
			return
		}
		again := req.call()
		var ag *refdec.Grid
		if again.bc != nil {
			ag, err = gridScheme(again.bc, fgc, bgc)
		}
		if again.bc == nil || err != nil {
			c.Violation("render/"+fam+"/pixel-not-in-scheme", fmt.Sprintf("repeating the call after one with exchanged colours: %v %v", again.err, err), inner, "")
			return
		}
		for i := range g.Dark {
			if sg.W != g.W || sg.H != g.H || ag.W != g.W || ag.H != g.H || sg.Dark[i] != g.Dark[i] || ag.Dark[i] != g.Dark[i] {
				c.Violation("render/"+fam+"/pattern-depends-on-scheme", fmt.Sprintf("module %d differs between the rendering, the one with exchanged colours and the repeated one", i), inner, "")
				return
			}
		}
		c.Cover("exchanged_colours_same_model", fam)
	}
	// optional fast-path accessors must agree with At
	if fast, ok := bc.(interface {
		RGBA64At(x, y int) color.RGBA64
	}); ok {
		for y := 0; y < g.H; y++ {
			for x := 0; x < g.W; x++ {
				r1, g1, b1, a1 := bc.At(x, y).RGBA()
				f := fast.RGBA64At(x, y)
				if uint32(f.R) != r1 || uint32(f.G) != g1 || uint32(f.B) != b1 || uint32(f.A) != a1 {
					c.Violation("render/"+fam+"/rgba64at-disagrees-with-at", fmt.Sprintf("RGBA64At(%d,%d) = %v but At gives (%d,%d,%d,%d)", x, y, f, r1, g1, b1, a1), inner, "")
					return
				}
			}
		}
	}
	if scheme.Model != nil || req.Scheme < 0 {
		// what the standard library draws must be what At reports
		dst := image.NewRGBA64(bc.Bounds())
		draw.Draw(dst, dst.Bounds(), bc, image.Point{}, draw.Src)
		for y := 0; y < g.H; y++ {
			for x := 0; x < g.W; x++ {
				r1, g1, b1, a1 := bc.At(x, y).RGBA()
				f := dst.RGBA64At(x, y)
				if uint32(f.R) != r1 || uint32(f.G) != g1 || uint32(f.B) != b1 || uint32(f.A) != a1 {
					c.Violation("render/"+fam+"/draw-disagrees-with-at", fmt.Sprintf("image/draw copies pixel (%d,%d) as %v but At gives (%d,%d,%d,%d)", x, y, f, r1, g1, b1, a1), inner, "")
					return
				}
			}
		}
	}
	// size prescribed by the structure
	w, h, note := structuralSize(req, g)
	if note != "" {
		c.Violation("render/"+fam+"/undecodable", note, inner, "")
		return
	}
	if g.W != w || g.H != h {
		c.Violation("render/"+fam+"/size", fmt.Sprintf("bounds %dx%d, structure prescribes %dx%d", g.W, g.H, w, h), inner, "")
		return
	}
	if _, dims := expectedKind(req, ""); dims == 1 && g.H != 1 {
		c.Violation("render/"+fam+"/size", fmt.Sprintf("1D barcode is %d pixels high", g.H), inner, "")
		return
	}
	// metadata and content
	wantContent := expectedContent(req)
	if bc.Content() != wantContent {
		c.Violation("render/"+fam+"/content", fmt.Sprintf("Content() = %s, want %s", short(bc.Content()), short(wantContent)), inner, "")
		return
	}
	kind, dims := expectedKind(req, wantContent)
	if md := bc.Metadata(); md.CodeKind != kind || md.Dimensions != dims {
		c.Violation("render/"+fam+"/metadata", fmt.Sprintf("Metadata() = %+v, want {%s %d}", md, kind, dims), inner, "")
		return
	}
	// accessor order: fresh instances of the same request, read in other orders (scalar
	// accessors first, pixels bottom-up / column-wise / permuted and twice), directly and
	// through a Scale wrapper, must give what the fixed-order reading of bc gave
	if g.W*g.H <= 40000 {
		want := digest(bc)
		ord := int(c.Res().Evals % 3)
		c.Cover("accessor_order", fmt.Sprintf("%s:%d", fam, ord))
		if o2 := req.call(); o2.panic == nil && o2.err == nil && o2.bc != nil {
			pv, _ := fw.Call(func() {
				if got := digestOrdered(o2.bc, b, ord, c.Rand()); got != want {
					c.Violation("render/"+fam+"/accessor-order", fmt.Sprintf("a second barcode for the same request read in accessor order %d differs from the first one read Bounds, pixels row by row, Content, Metadata, CheckSum, ColorScheme", ord), inner, "")
				}
			})
			if pv != nil {
				c.Violation("render/"+fam+"/accessor-order", fmt.Sprintf("panic while reading a fresh barcode in accessor order %d: %v", ord, pv), inner, "")
			}
		}
		sw, sh := 2*g.W+3, 2*g.H+1
		if g.H == 1 {
			sh = 3
		}
		var s1, s2 barcode.Barcode
		o3, o4 := req.call(), req.call()
		if o3.panic == nil && o3.err == nil && o3.bc != nil && o4.panic == nil && o4.err == nil && o4.bc != nil {
			pv, _ := fw.Call(func() {
				s1, _ = barcode.Scale(o3.bc, sw, sh)
				s2, _ = barcode.Scale(o4.bc, sw, sh)
				if s1 != nil && s2 != nil {
					if digestOrdered(s2, s1.Bounds(), (ord+1)%3, c.Rand()) != digest(s1) {
						c.Violation("render/"+fam+"/accessor-order-scaled", fmt.Sprintf("a Scale wrapper (%dx%d) of a fresh barcode read in accessor order %d differs from one read in the fixed order", sw, sh, (ord+1)%3), inner, "")
					}
				}
			})
			if pv != nil {
				c.Violation("render/"+fam+"/accessor-order-scaled", fmt.Sprintf("panic while reading a Scale wrapper in accessor order %d: %v", (ord+1)%3, pv), inner, "")
			}
		}
	}
	c.Nontrivial(req.Key())
	c.Cover("entry_point", req.entryName())
	if req.Scheme >= 0 {
		c.Cover("colour_model", fmt.Sprintf("%T", fgc))
	} else {
		c.Cover("colour_model", "plain")
	}
	c.Cover("size_class", fmt.Sprintf("%s:%d", fam, sizeClass(g.W)))
	if c.Rand().Intn(25) == 0 {
		c.Sample(map[string]any{"request": req.String(), "bounds": []int{g.W, g.H}, "foreground": fmt.Sprintf("%#v", fgc), "background": fmt.Sprintf("%#v", bgc)})
	}
}

func sizeClass(w int) int {
	switch {
	case w < 30:
		return 0
	case w < 60:
		return 1
	case w < 120:
		return 2
	case w < 300:
		return 3
	}
	return 4
}
