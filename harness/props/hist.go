package props

import (
	"bytes"
	"encoding/json"
	"fmt"
	"os"
	"os/exec"
	"path/filepath"
	"sync"
	"time"

	"github.com/boombuler/barcode"
	"github.com/boombuler/barcode/aztec"
	"github.com/boombuler/barcode/utils"

	"verifharness/fw"
	"verifharness/refdec"
)

// A history job: a fresh process executes the requests in order and records, for
// every event, the digest of everything observable about the returned barcode.

type histJob struct {
	ID     string `json:"id"`
	Kind   string `json:"kind"` // oneshot | pair | history | repeat
	Reqs   []Req  `json:"reqs"`
	Retain bool   `json:"retain"` // keep every barcode and re-hash all of them at the end
	Alias  bool   `json:"alias"`  // run the []byte aliasing probes on Aztec requests
	Sink   bool   `json:"sink"`   // register the polynomial-cache hook
}

type histEvent struct {
	Pos    int    `json:"pos"`
	Key    string `json:"key"`
	Digest string `json:"digest"` // "" if rejected / panicked
	Err    string `json:"err,omitempty"`
	Panic  string `json:"panic,omitempty"`
}

type histResult struct {
	ID         string      `json:"id"`
	Events     []histEvent `json:"events"`
	Problems   []string    `json:"problems"`  // re-hash mismatches, aliasing, input modification, hook invariant
	CacheObs   []string    `json:"cache_obs"` // "enc:lenBefore->degree"
	Leaked     int         `json:"leaked"`
	LeakSample string      `json:"leak_sample,omitempty"`
}

func init() {
	auxCommands["hist"] = auxHist
}

func auxHist(args []string) int {
	if len(args) != 2 {
		fmt.Fprintln(os.Stderr, "usage: aux hist <job.json> <out.json>")
		return 2
	}
	b, err := os.ReadFile(args[0])
	if err != nil {
		fmt.Fprintln(os.Stderr, err)
		return 2
	}
	var job histJob
	if err := json.Unmarshal(b, &job); err != nil {
		fmt.Fprintln(os.Stderr, err)
		return 2
	}
	res := runHist(&job)
	ob, _ := json.Marshal(res)
	if err := os.WriteFile(args[1], ob, 0o644); err != nil {
		fmt.Fprintln(os.Stderr, err)
		return 2
	}
	return 0
}

func fieldRef(gf *utils.GaloisField) (refdec.Field, bool) {
	// recover the primitive polynomial from the antilog table: alpha^m reduced
	m := 0
	for 1<<uint(m) < gf.Size {
		m++
	}
	if len(gf.ALogTbl) <= m {
		return refdec.Field{}, false
	}
	return refdec.Field{Poly: gf.ALogTbl[m] | gf.Size, Size: gf.Size}, true
}

func runHist(job *histJob) *histResult {
	res := &histResult{ID: job.ID}
	encIdx := map[*utils.ReedSolomonEncoder]int{}
	if job.Sink {
		utils.VerifPolySink = func(ev *utils.VerifPolyEvent) {
			id, ok := encIdx[ev.Encoder]
			if !ok {
				id = len(encIdx)
				encIdx[ev.Encoder] = id
			}
			// only the two package-level encoders live long enough to have a history
			if len(res.CacheObs) < 5000 {
				res.CacheObs = append(res.CacheObs, fmt.Sprintf("gf%d/base%d:%d->%d", ev.Field.Size, ev.Field.Base, ev.LenBefore, ev.Degree))
			}
			if rf, ok := fieldRef(ev.Field); ok {
				if msg := polyCacheInvariant(ev, rf, ev.Field.Base); msg != "" && len(res.Problems) < 20 {
					res.Problems = append(res.Problems, "cache-invariant: "+msg)
				}
			}
		}
	}
	var kept []barcode.Barcode
	var keptDigest []string
	var keptKey []string
	for i, r := range job.Reqs {
		ev := histEvent{Pos: i, Key: r.Key()}
		o := r.call()
		switch {
		case o.panic != nil:
			ev.Panic = fmt.Sprint(o.panic)
		case o.err != nil || o.bc == nil:
			if o.err != nil {
				ev.Err = o.err.Error()
			}
		default:
			ev.Digest = digest(o.bc)
			if job.Retain {
				kept = append(kept, o.bc)
				keptDigest = append(keptDigest, ev.Digest)
				keptKey = append(keptKey, ev.Key)
			}
		}
		res.Events = append(res.Events, ev)
		if job.Alias && r.Fam == "aztec" && len(r.S) > 0 {
			res.Problems = append(res.Problems, aliasProbe(r)...)
		}
	}
	for i, bc := range kept {
		if d := digest(bc); d != keptDigest[i] {
			res.Problems = append(res.Problems, fmt.Sprintf("retained-result-changed: barcode #%d (%s) hashed %s when created and %s at the end of the history", i, keptKey[i], keptDigest[i], d))
			if len(res.Problems) > 20 {
				break
			}
		}
	}
	utils.VerifPolySink = nil
	leaked, _ := fw.LeakVerdict()
	res.Leaked = len(leaked)
	if len(leaked) > 0 {
		res.LeakSample = leaked[0]
	}
	return res
}

// aliasProbe: the encoder must not modify its []byte argument, and the returned
// barcode must be a snapshot of it.
func aliasProbe(r Req) []string {
	var out []string
	// the argument is a sub-slice of a larger buffer: nothing beyond len may be touched
	buf := make([]byte, len(r.S)+16)
	for i := range buf {
		buf[i] = 0xA5
	}
	copy(buf, r.S)
	data := buf[:len(r.S)]
	orig := append([]byte{}, r.S...)
	var bc barcode.Barcode
	var err error
	pv, _ := fw.Call(func() {
		if r.Scheme < 0 {
			bc, err = aztec.Encode(data, int(r.int(0)), int(r.int(1)))
		} else {
			bc, err = aztec.EncodeWithColor(data, int(r.int(0)), int(r.int(1)), schemeOf(r.Scheme))
		}
	})
	if pv != nil || err != nil || bc == nil {
		return nil
	}
	if !bytes.Equal(data, orig) {
		out = append(out, fmt.Sprintf("input-modified: aztec.Encode changed its data argument (%s)", r))
	}
	for i := len(r.S); i < len(buf); i++ {
		if buf[i] != 0xA5 {
			out = append(out, fmt.Sprintf("input-modified/spare-capacity: aztec.Encode wrote into the caller's buffer beyond len(data), at offset %d (%s)", i-len(r.S), r))
			break
		}
	}
	before := digest(bc)
	content := bc.Content()
	for i := range data {
		data[i] ^= 0x5a
	}
	if bc.Content() != content {
		out = append(out, fmt.Sprintf("aliasing/content: Content() of the returned Aztec barcode changed from %s to %s after the caller overwrote its buffer", short(content), short(bc.Content())))
	} else if after := digest(bc); after != before {
		out = append(out, fmt.Sprintf("aliasing/pixels: the returned Aztec barcode changed after the caller overwrote its buffer (%s)", r))
	}
	// the same again, but the buffer is overwritten *before* any accessor of the returned
	// barcode has run (a barcode that keeps the caller's slice and derives Content(),
	// Metadata() or pixels from it lazily, on first use, passes the probe above)
	copy(data, orig)
	var lazy, scaled, ref barcode.Barcode
	pv, _ = fw.Call(func() {
		lazy, _ = aztec.Encode(data, int(r.int(0)), int(r.int(1)))
		if lazy != nil {
			w := lazy.Bounds().Dx()
			scaled, _ = barcode.Scale(lazy, 2*w+3, 2*w+3)
		}
		for i := range data {
			data[i] ^= 0x5a
		}
		ref, _ = aztec.Encode(append([]byte{}, orig...), int(r.int(0)), int(r.int(1)))
	})
	if pv == nil && lazy != nil && ref != nil {
		if scaled != nil && scaled.Content() != string(orig) {
			out = append(out, fmt.Sprintf("aliasing/lazy-content-scaled: the caller overwrote its buffer before the first Content() call on a Scale wrapper of the returned Aztec barcode; Content() is %s, the payload was %s", short(scaled.Content()), short(string(orig))))
		} else if lazy.Content() != string(orig) {
			out = append(out, fmt.Sprintf("aliasing/lazy-content: the caller overwrote its buffer before the first Content() call on the returned Aztec barcode; Content() is %s, the payload was %s", short(lazy.Content()), short(string(orig))))
		} else if digest(lazy) != digest(ref) {
			out = append(out, fmt.Sprintf("aliasing/lazy-pixels: the caller overwrote its buffer before the first use of the returned Aztec barcode; it differs from an encode of the same payload from an untouched slice (%s)", r))
		}
	}
	copy(data, orig)
	for i := range data {
		data[i] ^= 0x5a // the overwritten state the next probe starts from
	}
	// the caller reuses its buffer for the next payload: the same slice, new bytes.  The
	// result must be that of the new bytes (compared with an encode from a fresh slice).
	for round := 0; round < 2; round++ {
		var again, fresh barcode.Barcode
		now := append([]byte{}, data...)
		pv, _ := fw.Call(func() {
			again, _ = aztec.Encode(data, int(r.int(0)), int(r.int(1)))
			fresh, _ = aztec.Encode(append([]byte{}, now...), int(r.int(0)), int(r.int(1)))
		})
		if pv != nil {
			break
		}
		if (again == nil) != (fresh == nil) {
			out = append(out, fmt.Sprintf("buffer-reuse/acceptance: encoding from a reused buffer and from a fresh copy of the same bytes disagree on acceptance (%s)", r))
			break
		}
		if again != nil {
			if again.Content() != string(now) {
				out = append(out, fmt.Sprintf("buffer-reuse/content: encoding from a reused buffer reports Content() %s, the buffer holds %s", short(again.Content()), short(string(now))))
			} else if msg := verifyDecoded(Req{Fam: "aztec", S: now, I: r.I, Scheme: -1}, again); msg != "" {
				out = append(out, fmt.Sprintf("buffer-reuse/symbol: encoding %s from a reused buffer: %s", short(string(now)), msg))
			} else if digest(again) != digest(fresh) {
				out = append(out, fmt.Sprintf("buffer-reuse/pixels: encoding the new bytes from the reused buffer differs from encoding them from a fresh slice (%s)", r))
			}
		}
		for i := range data {
			data[i] = byte(int(data[i])*7 + i + round)
		}
	}
	// a refused request first (too much for an explicitly requested size), then the same
	// buffer refilled and encoded with automatic size: nothing of the refused payload
	// may survive
	for _, n := range []int{48, 64, 100, 600} {
		rb := make([]byte, n)
		for i := range rb {
			rb[i] = byte(0x80 + (i*7+n)%120)
		}
		var e1 error
		var again barcode.Barcode
		pv, _ := fw.Call(func() {
			_, e1 = aztec.Encode(rb, 23, -1)
			for i := range rb {
				rb[i] = byte('a' + (i*5+n)%26)
			}
			again, _ = aztec.Encode(rb, 23, 0)
		})
		if pv != nil || e1 == nil || again == nil {
			continue
		}
		if msg := verifyDecoded(Req{Fam: "aztec", S: append([]byte{}, rb...), I: []int64{23, 0}, Scheme: -1}, again); msg != "" {
			out = append(out, fmt.Sprintf("buffer-reuse/after-refusal: a %d-byte buffer was refused for layers -1, refilled and encoded again: %s", n, msg))
			break
		}
	}
	return out
}

// runJobs executes history jobs in fresh processes, `par` at a time.
func runJobs(bin string, dir string, jobs []histJob, par int, env []string) ([]*histResult, []string) {
	results := make([]*histResult, len(jobs))
	var notes []string
	var mu sync.Mutex
	sem := make(chan struct{}, par)
	var wg sync.WaitGroup
	for i := range jobs {
		wg.Add(1)
		sem <- struct{}{}
		go func(i int) {
			defer wg.Done()
			defer func() { <-sem }()
			jf := filepath.Join(dir, fmt.Sprintf("job%d.json", i))
			of := filepath.Join(dir, fmt.Sprintf("out%d.json", i))
			ef := filepath.Join(dir, fmt.Sprintf("err%d.txt", i))
			b, _ := json.Marshal(&jobs[i])
			os.WriteFile(jf, b, 0o644)
			cmd := exec.Command(bin, "aux", "hist", jf, of)
			e, _ := os.Create(ef)
			cmd.Stdout, cmd.Stderr = e, e
			cmd.Env = append(os.Environ(), env...)
			err := cmd.Start()
			if err == nil {
				done := make(chan error, 1)
				go func() { done <- cmd.Wait() }()
				select {
				case err = <-done:
				case <-time.After(20 * time.Minute):
					cmd.Process.Kill()
					err = fmt.Errorf("outer wall-clock watchdog (inconclusive)")
				}
			}
			e.Close()
			var r histResult
			ob, rerr := os.ReadFile(of)
			if err != nil || rerr != nil || json.Unmarshal(ob, &r) != nil {
				mu.Lock()
				notes = append(notes, fmt.Sprintf("job %s died: %v: %s", jobs[i].ID, err, headFileLocal(ef, 1500)))
				mu.Unlock()
				return
			}
			results[i] = &r
			os.Remove(jf)
			os.Remove(of)
			os.Remove(ef)
		}(i)
	}
	wg.Wait()
	return results, notes
}

func headFileLocal(path string, n int) string {
	b, _ := os.ReadFile(path)
	if len(b) > n {
		b = b[:n]
	}
	return string(b)
}
