package props

import (
	"encoding/json"
	"fmt"
	"os"
	"testing"

	"verifharness/refdec"
)

// TestOracleSensitivity measures the reference readers themselves: for a set of valid
// symbols every single module is flipped in turn and the reader must either reject
// the pattern or decode a different payload.  An undetected flip is a blind spot of the
// oracle (a module whose value no rule constrains).  Run: tools/oracle_sensitivity.sh
func TestOracleSensitivity(t *testing.T) {
	out := os.Getenv("SENSITIVITY_OUT")
	if out == "" {
		t.Skip("SENSITIVITY_OUT not set")
	}
	type res struct {
		Symbols    int      `json:"symbols"`
		Flips      int      `json:"flips"`
		Detected   int      `json:"detected"`
		Undetected []string `json:"undetected_examples"`
	}
	all := map[string]*res{}
	r := rngFor(7, "sens")
	record := func(fam string) *res {
		if all[fam] == nil {
			all[fam] = &res{}
		}
		return all[fam]
	}
	grid := func(fam string, q Req, dec func(g *refdec.Grid) ([]byte, error)) {
		bc, err := q.do()
		if err != nil || bc == nil {
			t.Fatalf("%s: %v", q, err)
		}
		g, err := grid2D(bc)
		if err != nil {
			t.Fatal(err)
		}
		want, err := dec(g)
		if err != nil {
			t.Fatalf("%s does not decode unflipped: %v", q, err)
		}
		rs := record(fam)
		rs.Symbols++
		for i := range g.Dark {
			g.Dark[i] = !g.Dark[i]
			got, err := dec(g)
			rs.Flips++
			if err != nil || string(got) != string(want) {
				rs.Detected++
			} else if len(rs.Undetected) < 12 {
				rs.Undetected = append(rs.Undetected, fmt.Sprintf("%s module (%d,%d) of %dx%d", q.String(), i%g.W, i/g.W, g.W, g.H))
			}
			g.Dark[i] = !g.Dark[i]
		}
	}
	row := func(fam string, q Req, dec func(bits []bool) (string, error)) {
		bc, err := q.do()
		if err != nil || bc == nil {
			t.Fatalf("%s: %v", q, err)
		}
		bits, err := row1D(bc)
		if err != nil {
			t.Fatal(err)
		}
		want, err := dec(bits)
		if err != nil {
			t.Fatalf("%s does not decode unflipped: %v", q, err)
		}
		rs := record(fam)
		rs.Symbols++
		for i := range bits {
			bits[i] = !bits[i]
			got, err := dec(bits)
			rs.Flips++
			if err != nil || got != want {
				rs.Detected++
			} else if len(rs.Undetected) < 12 {
				rs.Undetected = append(rs.Undetected, fmt.Sprintf("%s module %d of %d", q.String(), i, len(bits)))
			}
			bits[i] = !bits[i]
		}
	}
	for i := 0; i < 12; i++ {
		grid("qr", Req{Fam: "qr", S: randBytes(r, 5+i*9, printAB), I: []int64{int64(i % 4), 0}, Scheme: -1}, func(g *refdec.Grid) ([]byte, error) {
			x, err := refdec.DecodeQR(g)
			if err != nil {
				return nil, err
			}
			return append([]byte(fmt.Sprintf("v%d l%d m%d|", x.Version, x.Level, x.Mask)), x.Payload...), nil
		})
		grid("datamatrix", Req{Fam: "datamatrix", S: randBytes(r, 1+i*5, printAB), Scheme: -1}, func(g *refdec.Grid) ([]byte, error) {
			x, err := refdec.DecodeDataMatrix(g)
			if err != nil {
				return nil, err
			}
			return x.Payload, nil
		})
		grid("aztec", Req{Fam: "aztec", S: randBytes(r, 1+i*6, printAB), I: []int64{23, int64([]int{0, 0, -2, -3, 3, 4, 0, 6, 0, -4, 8, 0}[i])}, Scheme: -1}, func(g *refdec.Grid) ([]byte, error) {
			x, err := refdec.DecodeAztec(g)
			if err != nil {
				return nil, err
			}
			return append([]byte(fmt.Sprintf("c%v l%d w%d|", x.Compact, x.Layers, x.DataWords)), x.Payload...), nil
		})
		grid("pdf417", Req{Fam: "pdf417", S: randBytes(r, 1+i*4, printAB), I: []int64{int64(i % 4)}, Scheme: -1}, func(g *refdec.Grid) ([]byte, error) {
			x, err := refdec.DecodePDF417(g)
			if err != nil {
				return nil, err
			}
			return x.Payload, nil
		})
		row("code128", Req{Fam: "code128", S: randBytes(r, 1+i, printAB), Scheme: -1}, func(b []bool) (string, error) {
			x, err := refdec.DecodeCode128(b, true)
			if err != nil {
				return "", err
			}
			return x.Text, nil
		})
		row("code39", Req{Fam: "code39", S: randBytes(r, 1+i, []byte(refC39)), I: []int64{1, 0}, Scheme: -1}, func(b []bool) (string, error) {
			x, err := refdec.DecodeCode39(b, true)
			if err != nil {
				return "", err
			}
			return x.Data, nil
		})
		row("code93", Req{Fam: "code93", S: randBytes(r, 1+i, []byte(refC39)), I: []int64{1, 0}, Scheme: -1}, func(b []bool) (string, error) {
			x, err := refdec.DecodeCode93(b, true)
			if err != nil {
				return "", err
			}
			return refdec.Code93Text(x.Values), nil
		})
		row("ean", Req{Fam: "ean", S: randBytes(r, []int{7, 12}[i%2], digitsAB), Scheme: -1}, func(b []bool) (string, error) { return refdec.DecodeEAN(b) })
		row("codabar", Req{Fam: "codabar", S: append(append([]byte("A"), randBytes(r, 1+i, []byte("0123456789-$:/.+"))...), 'B'), Scheme: -1}, func(b []bool) (string, error) { return refdec.DecodeCodabar(b) })
		row("2of5", Req{Fam: "2of5", S: randBytes(r, 2+2*(i%5), digitsAB), I: []int64{int64(i % 2)}, Scheme: -1}, func(b []bool) (string, error) { return refdec.DecodeTwoOfFive(b, i%2 == 1) })
	}
	b, _ := json.MarshalIndent(all, "", " ")
	os.WriteFile(out, b, 0o644)
	for fam, rs := range all {
		t.Logf("%-10s symbols=%d flips=%d detected=%d (%.3f%%)", fam, rs.Symbols, rs.Flips, rs.Detected, 100*float64(rs.Detected)/float64(rs.Flips))
	}
}
