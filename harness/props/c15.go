package props

import (
	"fmt"
	"math/rand"
	"sort"
	"strings"

	"verifharness/fw"
	"verifharness/refdec"
)

// C15 — Encoding is a pure function: deterministic, history-free, no aliasing.
// Recorded histories {process, position, request, digest} from fresh one-shot
// processes, long-lived processes and ordered-pair processes are checked offline
// against the sequential model "the digest of a request is a constant".
type c15 struct{}

func init() { fw.Register(c15{}) }

func (c15) ID() string { return "C15" }
func (c15) Rule() string {
	return "request pool over all symbologies incl. one QR and one DataMatrix request per distinct Reed-Solomon degree; events recorded by (a) fresh one-shot processes, (b) long-lived processes running seed-chosen sequences (ascending / descending / random degree order, repetitions, 50x repetition of one request), which retain every barcode and re-hash all at the end, (c) fresh processes running every ordered pair of RS degrees; offline checker: all digests (bounds, every pixel, Content, Metadata, CheckSum, ColorScheme) of a request are equal across all contexts; []byte aliasing probes on every Aztec request (argument unchanged; pixels and Content unchanged after the argument is overwritten, both after a first read and when the overwrite precedes the first accessor call on the barcode or on a Scale wrapper of it); the cache hook reports the (length before, degree) states seen; non-trivial = a distinct request whose digest was compared across at least two different contexts"
}
func (c15) Assumptions() []string {
	return []string{"the digest covers Bounds, RGBA of every pixel, Content, Metadata, CheckSum and ColorScheme; equality of digests is taken as equality of barcodes (SHA-256 truncated to 128 bits)"}
}

// not used: C15 is a custom runner
func (c15) Gen(tier string, seed int64) []fw.Unit { return nil }
func (c15) Exec(c *fw.Ctx, u *fw.Unit)            {}

// qrReqForDegree returns a QR request whose blocks use ecc check codewords.
func qrDegreeReqs(r *rand.Rand) []Req {
	seen := map[int]bool{}
	var out []Req
	for v := 1; v <= 40; v++ {
		for lvl := 0; lvl < 4; lvl++ {
			_, ecc := refdec.QRBlocks(v, lvl)
			if seen[ecc] {
				continue
			}
			seen[ecc] = true
			n := refdec.QRCapacity(4, v, lvl)
			out = append(out, Req{Fam: "qr", S: qrForced(r, 4, n), I: []int64{int64(lvl), 3}, Scheme: -1})
		}
	}
	return out
}

func dmDegreeReqs(r *rand.Rand) []Req {
	seen := map[int]bool{}
	var out []Req
	eccPerBlock := map[int]int{10: 5, 12: 7, 14: 10, 16: 12, 18: 14, 20: 18, 22: 20, 24: 24, 26: 28, 32: 36, 36: 42, 40: 48, 44: 56, 48: 68, 52: 42, 64: 56, 72: 36, 80: 48, 88: 56, 96: 68, 104: 56, 120: 68, 132: 62, 144: 62}
	for _, c := range refdec.DMCapacities() {
		d := eccPerBlock[c[0]]
		if seen[d] {
			continue
		}
		seen[d] = true
		out = append(out, Req{Fam: "datamatrix", S: dmContent(r, 0, c[1]), Scheme: -1})
	}
	return out
}

func (p c15) Run(par *fw.Parent) *fw.Result {
	r := rngFor(par.Seed, "C15")
	thorough := par.Tier == "thorough"
	merged := &fw.Result{Cov: map[string]map[string]int64{}, ViolCounts: map[string]int64{}, Extra: map[string]int64{}}
	cover := func(dim, v string) {
		if merged.Cov[dim] == nil {
			merged.Cov[dim] = map[string]int64{}
		}
		merged.Cov[dim][v]++
	}
	qrDeg := qrDegreeReqs(r)
	dmDeg := dmDegreeReqs(r)
	npool := 120
	if thorough {
		npool = 600
	}
	var pool []Req
	pool = append(pool, qrDeg...)
	pool = append(pool, dmDeg...)
	for len(pool) < npool {
		fam := families[len(pool)%len(families)]
		sch := int64(-1)
		if r.Intn(4) == 0 {
			sch = int64(r.Intn(200))
		}
		pool = append(pool, randomValidReq(r, fam, sch))
	}
	// the same content under different parameters (state keyed too coarsely shows here)
	for _, txt := range []string{"A+B", "HELLO $%/+", "1234567890", "ABC-123"} {
		for cs := int64(0); cs < 2; cs++ {
			for full := int64(0); full < 2; full++ {
				pool = append(pool, Req{Fam: "code39", S: []byte(txt), I: []int64{cs, full}, Scheme: -1}, Req{Fam: "code93", S: []byte(txt), I: []int64{cs, full}, Scheme: -1})
			}
		}
		for lvl := int64(0); lvl < 4; lvl++ {
			for mode := int64(0); mode < 4; mode++ {
				pool = append(pool, Req{Fam: "qr", S: []byte(txt), I: []int64{lvl, mode}, Scheme: -1})
			}
		}
		pool = append(pool, Req{Fam: "code128", S: []byte(txt), Scheme: -1}, Req{Fam: "code128nocs", S: []byte(txt), Scheme: -1},
			Req{Fam: "datamatrix", S: []byte(txt), Scheme: -1}, Req{Fam: "datamatrix", S: []byte(txt), Scheme: 5})
	}
	for _, n := range []int{20, 21, 38, 39, 60} {
		d := randBytes(r, n, highAB)
		for lvl := int64(0); lvl < 9; lvl++ {
			pool = append(pool, Req{Fam: "pdf417", S: d, I: []int64{lvl}, Scheme: -1})
		}
		for _, pl := range [][2]int64{{0, 0}, {23, 0}, {33, 0}, {33, -4}, {33, 6}, {90, 0}} {
			pool = append(pool, Req{Fam: "aztec", S: d, I: []int64{pl[0], pl[1]}, Scheme: -1})
		}
	}
	for _, dg := range []string{"12", "123456", "40414240"} {
		pool = append(pool, Req{Fam: "2of5", S: []byte(dg), I: []int64{0}, Scheme: -1}, Req{Fam: "2of5", S: []byte(dg), I: []int64{1}, Scheme: -1})
	}
	// the WithColor entry point of every family: in its one-shot process it is the very
	// first call into that package
	for i, fam := range families {
		q := randomValidReq(r, fam, int64(5+i))
		pool = append(pool, q)
		p2 := q
		p2.Scheme = -1
		pool = append(pool, p2)
	}
	// some requests that are rejected, and Auto-mode QR taking the alphanumeric failure path
	pool = append(pool, Req{Fam: "qr", S: []byte("hello world"), I: []int64{1, 0}, Scheme: -1},
		Req{Fam: "qr", S: []byte("HELLO world"), I: []int64{2, 2}, Scheme: -1},
		Req{Fam: "ean", S: []byte("12345678"), Scheme: -1},
		Req{Fam: "code39", S: []byte("CHECK ME"), I: []int64{1, 0}, Scheme: -1},
		Req{Fam: "code93", S: []byte("CHECK ME"), I: []int64{1, 0}, Scheme: -1},
		Req{Fam: "code39", S: []byte("full ascii ~"), I: []int64{1, 1}, Scheme: -1},
		Req{Fam: "code93", S: []byte("full ascii ~"), I: []int64{1, 1}, Scheme: -1})

	var jobs []histJob
	// (a) one-shots
	for i, q := range pool {
		jobs = append(jobs, histJob{ID: fmt.Sprintf("oneshot-%d", i), Kind: "oneshot", Reqs: []Req{q}})
	}
	// (b) long-lived histories
	nh, hl := 8, 600
	if thorough {
		nh, hl = 32, 3000
	}
	idxQR := make([]int, len(qrDeg))
	for i := range idxQR {
		idxQR[i] = i
	}
	idxDM := make([]int, len(dmDeg))
	for i := range idxDM {
		idxDM[i] = len(qrDeg) + i
	}
	for h := 0; h < nh; h++ {
		var seq []Req
		order := h % 4
		switch order {
		case 0: // ascending degrees first
			for _, i := range idxQR {
				seq = append(seq, pool[i])
			}
			for _, i := range idxDM {
				seq = append(seq, pool[i])
			}
		case 1: // descending
			for i := len(idxQR) - 1; i >= 0; i-- {
				seq = append(seq, pool[idxQR[i]])
			}
			for i := len(idxDM) - 1; i >= 0; i-- {
				seq = append(seq, pool[idxDM[i]])
			}
		case 2: // largest first, then random
			seq = append(seq, pool[idxQR[len(idxQR)-1]], pool[idxDM[len(idxDM)-1]])
		}
		for len(seq) < hl {
			q := pool[r.Intn(len(pool))]
			seq = append(seq, q)
			if r.Intn(10) == 0 {
				seq = append(seq, q, q) // immediate repetitions
			}
		}
		jobs = append(jobs, histJob{ID: fmt.Sprintf("history-%d-order%d", h, order), Kind: "history", Reqs: seq, Retain: true, Alias: true, Sink: true})
	}
	// repetition of one request (map-iteration order is re-randomised per range loop)
	for i, q := range []Req{pool[len(pool)-4], pool[len(pool)-3], pool[len(pool)-2], pool[len(pool)-1], pool[0]} {
		var seq []Req
		for k := 0; k < 50; k++ {
			seq = append(seq, q)
		}
		jobs = append(jobs, histJob{ID: fmt.Sprintf("repeat-%d", i), Kind: "repeat", Reqs: seq, Retain: true})
	}
	// determinism under repetition: inputs with many equally cheap encodings (Aztec mode
	// ties, Code 128 set choices, PDF417 sub-mode choices), each encoded 25 times
	for k := 0; k < 6; k++ {
		var seq []Req
		for j := 0; j < 12; j++ {
			var q Req
			switch (k + j) % 4 {
			case 0:
				q = Req{Fam: "aztec", S: azWalk(r, 2+r.Intn(14), 1), I: []int64{33, 0}, Scheme: -1}
			case 1:
				q = Req{Fam: "aztec", S: []byte(pick(r, []string{"a\r", "\r!", ",A1@A,B1 ", "j q 5la6StGw1", "A. b, C: d\r\n", "1,2.3 4"})), I: []int64{23, 0}, Scheme: -1}
			case 2:
				q = Req{Fam: "pdf417", S: pdfTextWalk(r, 4+r.Intn(20)), I: []int64{int64(r.Intn(9))}, Scheme: -1}
			default:
				rs := make([]rune, 2+r.Intn(12))
				for i := range rs {
					rs[i] = c128Rep(r, r.Intn(c128Classes))
				}
				q = Req{Fam: "code128", S: []byte(string(rs)), Scheme: -1}
			}
			for rep := 0; rep < 25; rep++ {
				seq = append(seq, q)
			}
		}
		jobs = append(jobs, histJob{ID: fmt.Sprintf("repeat-ties-%d", k), Kind: "repeat", Reqs: seq})
	}
	// QR mask choice: about one short content in a hundred has two masks with the same
	// lowest penalty; whichever the encoder picks, it must pick it every time
	for k := 0; k < 4; k++ {
		var seq []Req
		for j := 0; j < 150; j++ {
			q := Req{Fam: "qr", S: []byte(fmt.Sprintf("TIE-%d", r.Intn(100000))), I: []int64{int64(r.Intn(4)), 0}, Scheme: -1}
			if j%3 == 0 {
				q.S = randBytes(r, 1+r.Intn(12), allAB)
				q.I[1] = 3
			}
			for rep := 0; rep < 8; rep++ {
				seq = append(seq, q)
			}
		}
		jobs = append(jobs, histJob{ID: fmt.Sprintf("repeat-qrmask-%d", k), Kind: "repeat", Reqs: seq})
	}
	// (c) every ordered pair of RS degrees, each in a fresh process
	pairs := func(idx []int, label string) {
		for _, a := range idx {
			for _, b := range idx {
				jobs = append(jobs, histJob{ID: fmt.Sprintf("pair-%s-%d-%d", label, a, b), Kind: "pair", Reqs: []Req{pool[a], pool[b]}, Sink: true})
			}
		}
	}
	pairs(idxQR, "qr")
	if thorough {
		pairs(idxDM, "dm")
	} else {
		// quick: every DataMatrix degree once as predecessor and once as successor
		for k, a := range idxDM {
			b := idxDM[(k*7+3)%len(idxDM)]
			jobs = append(jobs, histJob{ID: fmt.Sprintf("pair-dm-%d-%d", a, b), Kind: "pair", Reqs: []Req{pool[a], pool[b]}, Sink: true})
		}
	}

	// QR contents of different modes with equal bit counts, back to back in a fresh process
	npairs := 80
	if thorough {
		npairs = 600
	}
	for i, pu := range qrPairUnits(r, "qrpair", npairs) {
		qs := qrPairReqs(&pu)
		jobs = append(jobs, histJob{ID: fmt.Sprintf("qrpair-%d", i), Kind: "pair", Reqs: []Req{qs[0], qs[1]}},
			histJob{ID: fmt.Sprintf("qrpair-%d-b", i), Kind: "oneshot", Reqs: []Req{qs[1]}})
	}
	results, notes := runJobs(par.Self, par.WorkDir, jobs, par.Workers, nil)
	merged.Inconclusive = append(merged.Inconclusive, notes...)

	// offline checker
	type obs struct {
		job    string
		pos    int
		digest string
		kind   string
	}
	byKey := map[string][]obs{}
	cacheStates := map[string]bool{}
	for ji, res := range results {
		if res == nil {
			continue
		}
		job := jobs[ji]
		merged.Units++
		cover("process_kind", job.Kind)
		for _, ev := range res.Events {
			merged.Evals++
			if ev.Panic != "" {
				merged.Violations = append(merged.Violations, fw.Violation{Key: "purity/panic", Msg: "panic: " + ev.Panic, Inner: fmt.Sprintf("job %s position %d request %s", job.ID, ev.Pos, ev.Key)})
				merged.ViolCounts["purity/panic"]++
				continue
			}
			d := ev.Digest
			if d == "" {
				d = "rejected"
			}
			byKey[ev.Key] = append(byKey[ev.Key], obs{job.ID, ev.Pos, d, job.Kind})
		}
		for _, pr := range res.Problems {
			key := "purity/" + prefixOf(pr)
			merged.ViolCounts[key]++
			if merged.ViolCounts[key] <= 3 {
				merged.Violations = append(merged.Violations, fw.Violation{Key: key, Msg: pr, Inner: "job " + job.ID})
			}
		}
		if res.Leaked > 0 {
			merged.ViolCounts["goroutine-leak"]++
			merged.Violations = append(merged.Violations, fw.Violation{Key: "goroutine-leak", Msg: fmt.Sprintf("%d library goroutines blocked forever at the end of job %s", res.Leaked, job.ID), Detail: res.LeakSample})
		}
		for _, s := range res.CacheObs {
			cacheStates[s] = true
		}
	}
	var keys []string
	for k := range byKey {
		keys = append(keys, k)
	}
	sort.Strings(keys)
	for _, k := range keys {
		os := byKey[k]
		kinds := map[string]bool{}
		jobsSeen := map[string]bool{}
		first := os[0]
		bad := false
		for _, o := range os {
			kinds[o.kind] = true
			jobsSeen[o.job] = true
			if o.digest != first.digest && !bad {
				bad = true
				fam := k[:strings.IndexByte(k, '|')]
				key := "purity/digest-differs/" + fam
				merged.ViolCounts[key]++
				if merged.ViolCounts[key] <= 3 {
					merged.Violations = append(merged.Violations, fw.Violation{Key: key,
						Msg:   fmt.Sprintf("request returned %s in %s (position %d) but %s in %s (position %d)", first.digest, first.job, first.pos, o.digest, o.job, o.pos),
						Inner: k})
				}
			}
		}
		if !bad && len(jobsSeen) >= 2 && first.digest != "rejected" {
			merged.Nontrivial++
		}
		cover("contexts_per_request", fmt.Sprint(min(len(jobsSeen), 20)))
		cover("family", k[:strings.IndexByte(k, '|')])
	}
	for s := range cacheStates {
		cover("cache_state(field:lenBefore->degree)", s)
	}
	merged.Extra["processes"] = int64(len(jobs))
	merged.Extra["distinct_requests"] = int64(len(keys))
	merged.Extra["qr_rs_degrees"] = int64(len(qrDeg))
	merged.Extra["datamatrix_rs_degrees"] = int64(len(dmDeg))
	for i := 0; i < 4 && i < len(jobs); i++ {
		j := jobs[len(pool)+i%max(1, nh)]
		var s []string
		for _, q := range j.Reqs[:min(6, len(j.Reqs))] {
			s = append(s, q.String())
		}
		b, _ := jsonMarshal(map[string]any{"process": j.ID, "kind": j.Kind, "calls": len(j.Reqs), "first_requests": s})
		merged.Samples = append(merged.Samples, b)
	}
	return merged
}

// Replay re-runs the seed-determined set of processes and histories.
func (p c15) Replay(par *fw.Parent, v *fw.Violation) int {
	return replayWhole(par, p.Run(par), v)
}
