package props

import (
	"encoding/hex"
	"fmt"

	"verifharness/fw"
	"verifharness/refdec"
)

// C07 — Code 39 and Code 93: symbols decode to the given text in every option mix.
type c07 struct{}

func init() { fw.Register(c07{}) }

func (c07) ID() string { return "C07" }
func (c07) Rule() string {
	return "both symbologies x includeChecksum x fullASCII: ALL strings of length 0..2 over the 43-character alphabet (basic) and over ASCII 0..127 (full ASCII; basic too, to observe rejections), length 3 over the alphabet (thorough), random strings up to 60 characters incl. weight wrap-around (> 20 / > 15 data characters); symbol read by independent decoders built from the symbologies' construction rules; check characters must be present exactly when requested and correct; non-trivial = accepted and fully decoded, distinct by (symbology, options, text)"
}
func (c07) Assumptions() []string {
	return []string{
		"Code 39 table generated from its construction rule (2-of-5 bar code of the position, wide space by group), Code 93 table from the AIM width list (refdec/onedim.go)",
		"don't-care: FNC placeholder runes U+00F1..U+00F4 inside basic-mode Code 93 content",
	}
}

func (c07) Gen(tier string, seed int64) []fw.Unit {
	var us []fw.Unit
	for fam := int64(0); fam < 2; fam++ {
		// exhaustive short strings; every text is run through all four option mixes in
		// the same process (alternating order), so option-dependent state shows
		for lo := int64(0); lo < 128; lo += 4 {
			us = append(us, fw.U("c3993.exh", nil, "exhaustive<=2", fam, lo, lo+4))
		}
		if tier == "thorough" {
			for a := int64(0); a < 43; a++ {
				us = append(us, fw.U("c3993.exh3", nil, "exhaustive3", fam, a))
			}
		}
	}
	us = append(us, fw.U("c3993.long", nil, "very-long", 0), fw.U("c3993.long", nil, "very-long", 1))
	us = append(us, fw.U("c3993.decorated", nil, "decorated", 0), fw.U("c3993.decorated", nil, "decorated", 1))
	us = append(us, fw.U("c3993.collide", nil, "hash-collision-pairs", 0), fw.U("c3993.collide", nil, "hash-collision-pairs", 1))
	r := rngFor(seed, "C07")
	n := 100
	if tier == "thorough" {
		n = 1000
	}
	for i := 0; i < n; i++ {
		us = append(us, fw.U("c3993.random", nil, "random", r.Int63(), 400))
	}
	return us
}

// c3993AllMixes runs one text through the four option mixes of a symbology.
func c3993AllMixes(c *fw.Ctx, fam, s string, flip bool) {
	order := [][2]bool{{false, false}, {false, true}, {true, false}, {true, true}}
	if flip {
		order = [][2]bool{{true, true}, {false, true}, {true, false}, {false, false}}
	}
	for _, o := range order {
		c3993Check(c, fam, s, o[0], o[1])
	}
}

func c3993Check(c *fw.Ctx, fam string, s string, cs, full bool) {
	c.Eval()
	b2i := func(b bool) int64 {
		if b {
			return 1
		}
		return 0
	}
	req := Req{Fam: fam, S: []byte(s), I: []int64{b2i(cs), b2i(full)}, Scheme: -1}
	inner := req.String()
	c.Step(func() string { return inner })
	if c.Res().Evals%3 == 0 {
		poison(fam, full)
	}
	o := req.call()
	if !wellFormed(c, req.entryName(), inner, &o) {
		c.Cover("outcome", "rejected")
		if o.panic == nil && o.err != nil {
			ok := false
			if full {
				ok = asciiOnly(s)
			} else {
				ok = allIn(s, refC39)
				if fam == "code93" && !ok {
					// the four special characters ($)(%)(/)(+) are characters of the symbology;
					// the package exports them as FNC1..FNC4 (U+00F1..U+00F4)
					ok = allIn(s, refC39+"ñòóô")
				}
			}
			if ok {
				c.Violation(fam+"/rejected", "representable text rejected: "+o.err.Error(), inner, "")
			}
		}
		return
	}
	opt := fmt.Sprintf("cs=%v,full=%v", cs, full)
	retainObserve(c, fam, o.bc, inner, 3)
	bits, err := row1D(o.bc)
	if err != nil {
		c.Violation(fam+"/image", err.Error(), inner, "")
		return
	}
	var decoded string
	if fam == "code39" {
		res, err := refdec.DecodeCode39(bits, cs)
		if err != nil {
			c.Violation(fam+"/"+refdec.RuleOf(err)+"/"+opt, err.Error(), inner, refdec.BitString(bits))
			return
		}
		decoded = res.Data
		if full {
			decoded, err = refdec.Code39FullASCII(res.Data)
			if err != nil {
				c.Violation(fam+"/"+refdec.RuleOf(err)+"/"+opt, err.Error(), inner, res.Data)
				return
			}
		}
		if len(res.Data) > 20 {
			c.Cover("long_symbol", fam)
		}
	} else {
		res, err := refdec.DecodeCode93(bits, cs)
		if err != nil {
			c.Violation(fam+"/"+refdec.RuleOf(err)+"/"+opt, err.Error(), inner, refdec.BitString(bits))
			return
		}
		if full {
			decoded, err = refdec.Code93FullASCII(res.Values)
			if err != nil {
				c.Violation(fam+"/"+refdec.RuleOf(err)+"/"+opt, err.Error(), inner, fmt.Sprint(res.Values))
				return
			}
		} else {
			decoded = refdec.Code93Text(res.Values)
		}
		if len(res.Values) > 20 {
			c.Cover("weight_wrap_C", fam)
		}
		if len(res.Values) > 14 {
			c.Cover("weight_wrap_K", fam)
		}
	}
	if decoded != s {
		c.Violation(fam+"/roundtrip/"+opt, fmt.Sprintf("symbol decodes to %s", short(decoded)), inner, refdec.BitString(bits))
		return
	}
	c.Nontrivial(fam, cs, full, s)
	c.Cover("outcome", "accepted")
	c.Cover("option_mix", fam+":"+opt)
	if c.Res().Evals%3001 == 0 {
		c.Sample(map[string]any{"symbology": fam, "text": s, "includeChecksum": cs, "fullASCII": full, "modules": len(bits)})
	}
}

func (p c07) Exec(c *fw.Ctx, u *fw.Unit) {
	fam := "code39"
	switch u.Fn {
	case "c3993.exh":
		if u.Int(0) == 1 {
			fam = "code93"
		}
		lo, hi := int(u.Int(1)), int(u.Int(2))
		if lo == 0 {
			c3993AllMixes(c, fam, "", false)
		}
		for a := lo; a < hi; a++ {
			c3993AllMixes(c, fam, string([]byte{byte(a)}), a%2 == 1)
			for b := 0; b < 128; b++ {
				c3993AllMixes(c, fam, string([]byte{byte(a), byte(b)}), (a+b)%2 == 1)
			}
		}
		if fam == "code93" && lo == 0 {
			// the four special characters alone, in pairs and next to every basic character
			sp := []string{"ñ", "ò", "ó", "ô"}
			for i, a := range sp {
				c3993AllMixes(c, fam, a, i%2 == 1)
				for _, b := range sp {
					c3993AllMixes(c, fam, a+b, false)
				}
				for j := 0; j < len(refC39); j++ {
					c3993AllMixes(c, fam, a+refC39[j:j+1], j%2 == 1)
					c3993AllMixes(c, fam, refC39[j:j+1]+a, j%2 == 0)
				}
			}
			c.Cover("code93_special_characters_basic_mode", "len<=2")
		}
		c.Cover("exhaustive_len<=2_ascii", fam)
	case "c3993.exh3":
		if u.Int(0) == 1 {
			fam = "code93"
		}
		a := refC39[u.Int(1)]
		for i := 0; i < 43; i++ {
			for j := 0; j < 43; j++ {
				c3993AllMixes(c, fam, string([]byte{a, refC39[i], refC39[j]}), (i+j)%2 == 1)
			}
		}
	case "c3993.collide":
		if u.Int(0) == 1 {
			fam = "code93"
		}
		for _, hp := range collideData["c39/20"] {
			for _, h := range hp {
				b, _ := hex.DecodeString(h)
				c3993Check(c, fam, string(b), true, false)
			}
		}
		for _, key := range []string{"lower/20", "ascii/24", "print/24"} {
			for _, hp := range collideData[key] {
				for _, h := range hp {
					b, _ := hex.DecodeString(h)
					c3993Check(c, fam, string(b), true, true)
				}
			}
		}
	case "c3993.decorated":
		if u.Int(0) == 1 {
			fam = "code93"
		}
		for _, base := range []string{"AB", "CODE 39", "a1", ""} {
			for _, d := range decorate([]byte(base)) {
				c3993AllMixes(c, fam, string(d), false)
			}
		}
	case "c3993.long":
		if u.Int(0) == 1 {
			fam = "code93"
		}
		r := rngFor(c.Seed, "c3993long")
		for _, n := range []int{61, 64, 65, 100, 127, 128, 129, 255, 256, 257, 258, 511, 512, 513, 1000, 1560, 1561, 1562, 1600, 3200, 6500} {
			for _, ab := range [][]byte{[]byte("%"), []byte("%+/$"), []byte(refC39), []byte("0"), []byte("Z")} {
				txt := string(randBytes(r, n, ab))
				c3993Check(c, fam, txt, true, false)
				c3993Check(c, fam, txt, false, false)
			}
			if n <= 1600 {
				txt := string(randBytes(r, n, lowerAB))
				c3993Check(c, fam, txt, true, true)
				c3993Check(c, fam, string(randBytes(r, n, asciiAB)), true, true)
			}
		}
	case "c3993.random":
		r := rngFor(u.Int(0), "c3993")
		for i := 0; i < int(u.Int(1)); i++ {
			if r.Intn(2) == 1 {
				fam = "code93"
			} else {
				fam = "code39"
			}
			full := r.Intn(2) == 1
			ab := []byte(refC39)
			if full {
				ab = asciiAB
			}
			n := r.Intn(61)
			txt := string(randBytes(r, n, ab))
			if fam == "code93" && !full && i%5 == 0 {
				// basic mode over all 47 characters: the special characters ($)(%)(/)(+)
				// are written U+00F1..U+00F4 (the package's FNC1..FNC4)
				rs := []rune(txt)
				for k := 0; k < 1+r.Intn(4); k++ {
					p := r.Intn(len(rs) + 1)
					rs = append(rs[:p], append([]rune{rune(0xf1 + r.Intn(4))}, rs[p:]...)...)
				}
				txt = string(rs)
			}
			c3993Check(c, fam, txt, r.Intn(2) == 1, full)
			if !full && i%3 == 0 && len(txt) > 0 {
				// the same text, then the text with its own check characters appended as
				// data (what a caller does who computes them himself), then the text again
				ext := []string{}
				if fam == "code39" {
					if ch := refdec.Code39CheckChar(txt); ch != 0 {
						ext = append(ext, txt+string(ch))
					}
				} else if cc, kk, ok := refdec.Code93CheckChars(txt); ok {
					ext = append(ext, txt+string(cc), txt+string(cc)+string(kk))
				}
				c3993Check(c, fam, txt, true, false)
				for _, e := range ext {
					c3993Check(c, fam, e, true, false)
					c3993Check(c, fam, e, false, false)
				}
				c3993Check(c, fam, txt, true, false)
				c.Cover("text_then_text_plus_own_check_characters", fam)
			}
			if i%4 == 0 {
				c3993AllMixes(c, fam, txt, r.Intn(2) == 1)
			}
		}
	}
}
