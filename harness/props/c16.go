package props

import (
	"bytes"
	"encoding/json"
	"fmt"
	"image/color"
	"math/rand"
	"os"
	"os/exec"
	"path/filepath"
	"regexp"
	"runtime"
	"sort"
	"strconv"
	"strings"
	"sync"
	"sync/atomic"
	"syscall"
	"time"

	"github.com/boombuler/barcode"
	"github.com/boombuler/barcode/utils"

	"verifharness/fw"
	"verifharness/refdec"
)

// C16 — Encoders are safe for concurrent use and leave nothing running.
type c16 struct{}

func init() {
	fw.Register(c16{})
	auxCommands["racework"] = auxRaceWork
}

func (c16) ID() string { return "C16" }
func (c16) Rule() string {
	return "workload descriptors (seed, GOMAXPROCS in {1,2,4,8,16}, goroutines in {2,...,64}) each run in a FRESH process built with -race, in which the concurrent calls are the first library calls ever made: goroutines released by one barrier run private seed-shuffled lists mixing all encoders, QR and DataMatrix requests that climb through every Reed-Solomon degree (contended cache growth), Auto-mode inputs on the alphanumeric failure path, Scale with concurrent pixel reads of shared barcodes, shared Scale wrappers whose first reads are made by all goroutines together, and shared harness-owned ReedSolomonEncoders checked by syndromes; oracles: race-detector reports (any report is a violation), every digest equal to a sequential baseline process, no panic/deadlock, no blocked library goroutine after quiescence; non-trivial = a distinct (process descriptor, request) whose result was compared with the baseline"
}
func (c16) Assumptions() []string {
	return []string{
		"the race detector only sees executed code and keeps a bounded access history; schedules are sampled, not enumerated",
		"in race-deciding runs the hook sink is off and the harness goroutines share nothing while calls are in flight (private logs merged after Wait), so the monitor adds no happens-before edges; contention statistics come from a separate sink-on pass",
	}
}

func (c16) Gen(tier string, seed int64) []fw.Unit { return nil }
func (c16) Exec(c *fw.Ctx, u *fw.Unit)            {}

type raceDesc struct {
	ID         string `json:"id"`
	Seed       int64  `json:"seed"`
	Procs      int    `json:"procs"`
	Goroutines int    `json:"goroutines"`
	PerG       int    `json:"per_g"`
	Sink       bool   `json:"sink"`
	Focus      string `json:"focus"` // what every goroutine calls first (cold-start contention target)
	Micro      bool   `json:"micro"` // only the focus requests, a few rounds: many cheap cold starts
	// Hammer: family whose encoder every goroutine calls in a tight loop with fresh random
	// valid requests, each result read back by the reference decoder at once (windows of
	// a few instructions between two non-atomic steps of a "thread-safe" cache)
	Hammer string `json:"hammer,omitempty"`
	// Twin: every goroutine's very first call is the SAME request (same size class,
	// level, flags), so that lazily built per-size / per-level / per-option state is
	// first-used by all of them at once; a short hammer loop on the family follows, so
	// that state left corrupted by the overlap shows in later results
	Twin    string `json:"twin,omitempty"`
	HammerN int    `json:"hammer_n,omitempty"`
}

var twinClasses = []string{"datamatrix:10", "datamatrix:32", "datamatrix:88", "datamatrix:144", "pdf417:0", "pdf417:1", "pdf417:2", "pdf417:3", "pdf417:4", "pdf417:5", "pdf417:6", "pdf417:7", "pdf417:8",
	"datamatrix:rounds", "pdf417:rounds", "qr:rounds", "aztec:rounds", "code93:rounds", "code39:rounds",
	"aztec:compact", "aztec:8", "aztec:10", "aztec:12", "aztec:10+12", "aztec:10big", "aztec:12big", "qr:5", "qr:12", "qr:30", "qr:alnum", "code93:cs", "code93:full", "code39:cs", "code39:full", "code128", "code128nocs", "ean:7", "ean:12", "ean:13", "codabar", "2of5:1", "2of5:0"}

// twinFirst returns the first requests of goroutine g in a twin process: identical for
// all goroutines (built from the descriptor's rng), except in mixed classes where even
// and odd goroutines take the two sides.
func twinFirst(class string, seed int64, g int) []Req {
	r := rngFor(seed, "twin")
	fam, arg := class, ""
	if i := strings.IndexByte(class, ':'); i >= 0 {
		fam, arg = class[:i], class[i+1:]
	}
	n, _ := strconv.Atoi(arg)
	if arg == "rounds" {
		// several rounds in one process, each behind a barrier: every round is the
		// simultaneous first use of another size / level / version / option
		var out []Req
		switch fam {
		case "datamatrix":
			caps := refdec.DMCapacities()
			r.Shuffle(len(caps), func(i, j int) { caps[i], caps[j] = caps[j], caps[i] })
			for _, c := range caps {
				out = append(out, Req{Fam: fam, S: randBytes(r, c[1], upperAB), Scheme: -1})
			}
		case "pdf417":
			for _, l := range r.Perm(9) {
				out = append(out, Req{Fam: fam, S: pdfTextWalk(r, 30), I: []int64{int64(l)}, Scheme: -1})
			}
		case "qr":
			vs := []int{1, 5, 9, 10, 12, 20, 26, 27, 30, 35, 40, 14, 7, 33}
			r.Shuffle(len(vs), func(i, j int) { vs[i], vs[j] = vs[j], vs[i] })
			for _, v := range vs {
				lvl := r.Intn(4)
				out = append(out, Req{Fam: fam, S: randBytes(r, refdec.QRCapacity(4, v, lvl), printAB), I: []int64{int64(lvl), 3}, Scheme: -1})
			}
		case "aztec":
			ls := []int64{-4, -3, -2, -1, 1, 2, 3, 5, 8, 9, 12, 15, 22, 23, 27, 32}
			r.Shuffle(len(ls), func(i, j int) { ls[i], ls[j] = ls[j], ls[i] })
			for _, l := range ls {
				out = append(out, Req{Fam: fam, S: randBytes(r, 3, upperAB), I: []int64{23, l}, Scheme: -1})
			}
		default: // code39 / code93: the option mixes
			for _, o := range [][2]int64{{1, 0}, {0, 1}, {1, 1}, {0, 0}} {
				ab := []byte(refC39)
				if o[1] == 1 {
					ab = asciiAB
				}
				out = append(out, Req{Fam: fam, S: randBytes(r, 18, ab), I: []int64{o[0], o[1]}, Scheme: -1})
			}
			if g%2 == 1 {
				out[0], out[2] = out[2], out[0]
			}
		}
		return out
	}
	switch fam {
	case "datamatrix":
		cw := map[int]int{10: 2, 32: 50, 88: 500, 144: 1400}[n]
		return []Req{{Fam: fam, S: randBytes(r, cw, upperAB), Scheme: -1}}
	case "pdf417":
		return []Req{{Fam: fam, S: pdfTextWalk(r, 40), I: []int64{int64(n)}, Scheme: -1}, {Fam: fam, S: randBytes(r, 20, digitsAB), I: []int64{int64(n)}, Scheme: -1}}
	case "aztec":
		// tiny payloads with explicit layer requests: both word sizes reach the
		// Reed-Solomon stage at the same moment
		ten := Req{Fam: fam, S: randBytes(r, 3, upperAB), I: []int64{23, int64(9 + r.Intn(14))}, Scheme: -1}
		twelve := Req{Fam: fam, S: randBytes(r, 3, upperAB), I: []int64{23, int64(23 + r.Intn(10))}, Scheme: -1}
		if arg == "10big" {
			return []Req{{Fam: fam, S: randBytes(r, 500, highAB), I: []int64{23, 0}, Scheme: -1}}
		}
		if arg == "12big" {
			return []Req{{Fam: fam, S: randBytes(r, 1200, highAB), I: []int64{23, 0}, Scheme: -1}}
		}
		switch arg {
		case "compact":
			return []Req{{Fam: fam, S: randBytes(r, 8, upperAB), I: []int64{33, 0}, Scheme: -1}}
		case "8":
			return []Req{{Fam: fam, S: randBytes(r, 60, printAB), I: []int64{33, 0}, Scheme: -1}}
		case "10":
			return []Req{ten}
		case "12":
			return []Req{twelve}
		default:
			if g%2 == 0 {
				return []Req{ten, twelve}
			}
			return []Req{twelve, ten}
		}
	case "qr":
		switch arg {
		case "alnum":
			return []Req{{Fam: fam, S: randBytes(r, 300, qrAlnumAB), I: []int64{1, 2}, Scheme: -1}}
		default:
			bytesFor := map[int]int{5: 80, 12: 300, 30: 1300}[n]
			return []Req{{Fam: fam, S: randBytes(r, bytesFor, printAB), I: []int64{1, 3}, Scheme: -1}}
		}
	case "code93", "code39":
		if arg == "full" {
			return []Req{{Fam: fam, S: randBytes(r, 20, asciiAB), I: []int64{1, 1}, Scheme: -1}}
		}
		return []Req{{Fam: fam, S: randBytes(r, 20, []byte(refC39)), I: []int64{1, 0}, Scheme: -1}}
	case "code128", "code128nocs":
		return []Req{{Fam: fam, S: randBytes(r, 24, printAB), Scheme: -1}}
	case "ean":
		q := Req{Fam: fam, S: randBytes(r, min(n, 12), digitsAB), Scheme: -1}
		if n == 13 {
			q.S = []byte(eanExpect(string(q.S)))
		}
		return []Req{q}
	case "codabar":
		return []Req{{Fam: fam, S: []byte("A" + string(randBytes(r, 12, digitsAB)) + "B"), Scheme: -1}}
	case "2of5":
		return []Req{{Fam: fam, S: randBytes(r, 12, digitsAB), I: []int64{int64(n)}, Scheme: -1}}
	}
	return nil
}

// rejectedByFam: requests that every family must refuse, by family (filled by
// raceRequests); the hammer loops interleave them with the valid requests.
var rejectedByFam map[string][]Req

var hammerFamilies = []string{"ean", "code128", "code39", "code93", "codabar", "2of5", "code128nocs", "qr", "datamatrix", "pdf417", "aztec"}

var raceFocuses = []string{"rs-climb", "aztec-10bit", "aztec-12bit", "pdf417", "aztec-small", "datamatrix-big", "qr-big", "onedim", "rs-climb", "aztec-8bit"}
var microFocuses = []string{"code128", "code39-93-long", "ean-2of5-codabar", "onedim", "pdf417", "aztec-small", "code128", "code39-93-long"}

// focusReqs: the first calls of every goroutine; all of them hit the same family and
// size class at the same time while everything in the process is still cold.
func focusReqs(focus string, gr *rand.Rand) []Req {
	switch focus {
	case "aztec-10bit":
		return []Req{{Fam: "aztec", S: randBytes(gr, 400+gr.Intn(400), highAB), I: []int64{23, 0}, Scheme: -1}, {Fam: "aztec", S: randBytes(gr, 500+gr.Intn(300), printAB), I: []int64{33, 0}, Scheme: -1}, {Fam: "aztec", S: randBytes(gr, 250+gr.Intn(500), highAB), I: []int64{33, 0}, Scheme: -1}, {Fam: "aztec", S: randBytes(gr, 200, printAB), I: []int64{23, 12}, Scheme: -1}}
	case "aztec-12bit":
		return []Req{{Fam: "aztec", S: randBytes(gr, 1100+gr.Intn(300), highAB), I: []int64{33, 0}, Scheme: -1}, {Fam: "aztec", S: []byte("A"), I: []int64{23, int64(23 + gr.Intn(10))}, Scheme: -1}}
	case "aztec-8bit":
		return []Req{{Fam: "aztec", S: randBytes(gr, 40+gr.Intn(60), printAB), I: []int64{33, 0}, Scheme: -1}, {Fam: "aztec", S: randBytes(gr, 30, highAB), I: []int64{23, 0}, Scheme: -1}}
	case "aztec-small":
		return []Req{{Fam: "aztec", S: randBytes(gr, 1+gr.Intn(12), upperAB), I: []int64{33, 0}, Scheme: -1}, {Fam: "aztec", S: []byte("a1!"), I: []int64{33, -1}, Scheme: -1}}
	case "pdf417":
		return []Req{{Fam: "pdf417", S: pdfTextWalk(gr, 20+gr.Intn(200)), I: []int64{int64(gr.Intn(9))}, Scheme: -1}, {Fam: "pdf417", S: randBytes(gr, 30, digitsAB), I: []int64{2}, Scheme: -1}, {Fam: "pdf417", S: randBytes(gr, 13, highAB), I: []int64{1}, Scheme: -1}}
	case "datamatrix-big":
		return []Req{{Fam: "datamatrix", S: randBytes(gr, 900+gr.Intn(500), upperAB), Scheme: -1}, {Fam: "datamatrix", S: randBytes(gr, 300, highAB), Scheme: -1}}
	case "qr-big":
		return []Req{{Fam: "qr", S: randBytes(gr, 800+gr.Intn(900), printAB), I: []int64{int64(gr.Intn(4)), 0}, Scheme: -1}, {Fam: "qr", S: randBytes(gr, 900, digitsAB), I: []int64{3, 1}, Scheme: -1}}
	case "aztec-big-stream":
		var l []Req
		for i := 0; i < 3; i++ {
			l = append(l, Req{Fam: "aztec", S: randBytes(gr, 900+gr.Intn(550), highAB), I: []int64{int64(gr.Intn(40)), 0}, Scheme: -1})
		}
		return l
	case "code128":
		var l []Req
		// digits-only first (touches no A/B tables), then everything else
		l = append(l, Req{Fam: "code128", S: randBytes(gr, 10, digitsAB), Scheme: -1})
		for i := 0; i < 5; i++ {
			l = append(l, randomValidReq(gr, pick(gr, []string{"code128", "code128nocs"}), -1))
		}
		return l
	case "code39-93-long":
		var l []Req
		for i := 0; i < 4; i++ {
			fam := pick(gr, []string{"code39", "code93"})
			l = append(l, Req{Fam: fam, S: randBytes(gr, 66+gr.Intn(150), []byte(refC39)), I: []int64{1, 0}, Scheme: -1},
				Req{Fam: fam, S: randBytes(gr, 40+gr.Intn(60), asciiAB), I: []int64{1, 1}, Scheme: -1})
		}
		return l
	case "ean-2of5-codabar":
		var l []Req
		for i := 0; i < 4; i++ {
			l = append(l, Req{Fam: "ean", S: randBytes(gr, pick(gr, []int{7, 12}), digitsAB), Scheme: -1}, randomValidReq(gr, "2of5", -1), randomValidReq(gr, "codabar", -1))
		}
		return l
	case "onedim":
		return []Req{randomValidReq(gr, "code128", -1), randomValidReq(gr, "code39", -1), randomValidReq(gr, "code93", -1), randomValidReq(gr, "ean", -1), randomValidReq(gr, "codabar", -1), randomValidReq(gr, "2of5", -1)}
	}
	return nil
}

// untouchedReqs: barcodes encoded before the barrier on which nothing at all is called
// until every goroutine reads them at once (lazily materialised state inside a
// returned barcode would be initialised concurrently).  Families whose encoding would
// warm up what the descriptor wants to hit cold are left out.
func untouchedReqs(d *raceDesc) []Req {
	if d.Micro {
		return nil
	}
	var out []Req
	cold := map[string][]string{"pdf417": {"pdf417"}, "code128": {"code128"}, "ean-2of5-codabar": {"ean", "2of5", "codabar"}, "code39-93-long": {"code39", "code93"},
		"onedim": {"code128", "ean", "2of5", "codabar", "code39", "code93"}, "rs-climb": {"qr", "datamatrix"}, "qr-big": {"qr"}, "datamatrix-big": {"datamatrix"}}
	skip := map[string]bool{}
	for _, f := range cold[d.Focus] {
		skip[f] = true
	}
	if strings.HasPrefix(d.Focus, "aztec") {
		skip["aztec"] = true
	}
	for _, q := range []Req{
		{Fam: "pdf417", S: []byte("untouched PDF417 barcode, 1234567890123456"), I: []int64{3}, Scheme: -1}, {Fam: "pdf417", S: []byte("second untouched"), I: []int64{0}, Scheme: 11},
		{Fam: "qr", S: []byte("untouched QR"), I: []int64{2, 0}, Scheme: -1}, {Fam: "datamatrix", S: []byte("untouched DataMatrix"), Scheme: 5},
		{Fam: "aztec", S: []byte("untouched Aztec"), I: []int64{33, 0}, Scheme: -1}, {Fam: "code128", S: []byte("untouched128"), Scheme: -1},
		{Fam: "ean", S: []byte("4006381333931"), Scheme: 6}, {Fam: "code39", S: []byte("UNTOUCHED"), I: []int64{1, 0}, Scheme: -1}, {Fam: "code93", S: []byte("UNTOUCHED"), I: []int64{1, 0}, Scheme: -1},
		{Fam: "codabar", S: []byte("A0123B"), Scheme: -1}, {Fam: "2of5", S: []byte("123456"), I: []int64{1}, Scheme: 8},
	} {
		if !skip[q.Fam] {
			out = append(out, q)
		}
	}
	return out
}

type raceOut struct {
	ID          string            `json:"id"`
	Digests     map[string]string `json:"digests"`   // request key -> digest ("rejected" if refused)
	Conflicts   []string          `json:"conflicts"` // same key, different digests inside this process
	Panics      []string          `json:"panics"`
	Problems    []string          `json:"problems"` // RS syndrome failures, scale mismatches, hook invariant
	Calls       int               `json:"calls"`
	Overlap     int64             `json:"overlap_pairs"`
	MaxInFlight int               `json:"max_in_flight"`
	Growths     int               `json:"growths"`
	Contended   int               `json:"contended_growths"`
	Leaked      int               `json:"leaked"`
	Hammered    int               `json:"hammered"`
	LeakSample  string            `json:"leak_sample"`
}

// raceRequests builds the per-goroutine request lists from the descriptor seed; the
// same function serves the baseline process.
func raceRequests(d *raceDesc) [][]Req {
	r := rngFor(d.Seed, "race")
	qrDeg := qrDegreeReqs(r)
	dmDeg := dmDegreeReqs(r)
	rejected := []Req{
		{Fam: "codabar", S: []byte("A12x3B"), Scheme: -1}, {Fam: "codabar", S: []byte("no"), Scheme: -1}, {Fam: "code93", S: []byte("lower a"), I: []int64{1, 0}, Scheme: -1},
		{Fam: "code93", S: []byte("caf\u00e9"), I: []int64{0, 1}, Scheme: -1}, {Fam: "code39", S: []byte("a*b"), I: []int64{1, 0}, Scheme: -1}, {Fam: "code39", S: []byte("\u00e9"), I: []int64{0, 1}, Scheme: -1},
		{Fam: "code128", S: []byte("\u00e9x"), Scheme: -1}, {Fam: "code128nocs", S: nil, Scheme: -1}, {Fam: "2of5", S: []byte("12a4"), I: []int64{1}, Scheme: -1}, {Fam: "2of5", S: []byte("123"), I: []int64{1}, Scheme: -1},
		{Fam: "ean", S: []byte("1234567x"), Scheme: -1}, {Fam: "ean", S: []byte("12345671"), Scheme: -1}, {Fam: "pdf417", S: []byte("x"), I: []int64{9}, Scheme: -1},
		{Fam: "aztec", S: []byte("x"), I: []int64{33, 40}, Scheme: -1}, {Fam: "datamatrix", S: bytes.Repeat([]byte{0xfe}, 900), Scheme: -1}, {Fam: "qr", S: []byte("12a"), I: []int64{0, 1}, Scheme: -1},
		// the later rejection paths: too much for the requested / the largest size
		{Fam: "aztec", S: bytes.Repeat([]byte{0x81}, 66), I: []int64{5, -4}, Scheme: -1}, {Fam: "aztec", S: bytes.Repeat([]byte{0x90}, 70), I: []int64{0, -4}, Scheme: -1}, {Fam: "aztec", S: bytes.Repeat([]byte("a"), 40), I: []int64{33, -1}, Scheme: -1},
		{Fam: "aztec", S: bytes.Repeat([]byte{0xf0}, 300), I: []int64{23, 3}, Scheme: -1}, {Fam: "aztec", S: bytes.Repeat([]byte{0xaa}, 2600), I: []int64{33, 0}, Scheme: -1}, {Fam: "aztec", S: []byte("percent"), I: []int64{5000, 1}, Scheme: -1},
		{Fam: "qr", S: bytes.Repeat([]byte("A"), 4297), I: []int64{0, 2}, Scheme: -1}, {Fam: "qr", S: bytes.Repeat([]byte("7"), 3058), I: []int64{3, 0}, Scheme: -1}, {Fam: "qr", S: []byte("lower case"), I: []int64{1, 2}, Scheme: -1},
		{Fam: "pdf417", S: bytes.Repeat([]byte{0xc1}, 1200), I: []int64{2}, Scheme: -1}, {Fam: "pdf417", S: bytes.Repeat([]byte("Z"), 900), I: []int64{8}, Scheme: -1},
		{Fam: "datamatrix", S: bytes.Repeat([]byte("q"), 1559), Scheme: -1}, {Fam: "code128", S: bytes.Repeat([]byte("k"), 81), Scheme: -1}, {Fam: "code128", S: []byte("ok then \xff"), Scheme: -1},
		{Fam: "ean", S: []byte("123456"), Scheme: -1}, {Fam: "ean", S: []byte("4006381333932"), Scheme: -1}, {Fam: "codabar", S: []byte("A12"), Scheme: -1}, {Fam: "code39", S: []byte("UPPER lower"), I: []int64{0, 0}, Scheme: -1},
	}
	rejectedByFam = map[string][]Req{}
	for _, q := range rejected {
		rejectedByFam[q.Fam] = append(rejectedByFam[q.Fam], q)
	}
	fixed := []Req{
		{Fam: "qr", S: []byte("hello world"), I: []int64{1, 0}, Scheme: -1}, // Auto: numeric fails, alphanumeric fails (producer break path), byte ok
		{Fam: "qr", S: []byte("HELLO WORLD"), I: []int64{0, 0}, Scheme: -1},
		{Fam: "qr", S: []byte("not alnum"), I: []int64{0, 2}, Scheme: -1}, // rejected
		{Fam: "qr", S: []byte("12x"), I: []int64{0, 1}, Scheme: -1},       // rejected
		{Fam: "ean", S: []byte("12345678"), Scheme: -1},                   // rejected
		{Fam: "code39", S: []byte("RACE"), I: []int64{1, 0}, Scheme: -1},
		{Fam: "code93", S: []byte("RACE"), I: []int64{1, 0}, Scheme: -1},
	}
	var pool []Req
	for i := 0; i < 40; i++ {
		pool = append(pool, randomValidReq(r, families[i%len(families)], -1))
	}
	lists := make([][]Req, d.Goroutines)
	for g := range lists {
		gr := rand.New(rand.NewSource(d.Seed*1000003 + int64(g)))
		var l []Req
		if d.Twin != "" {
			lists[g] = twinFirst(d.Twin, d.Seed, g)
			continue
		}
		l = append(l, focusReqs(d.Focus, gr)...)
		if d.Micro {
			l = append(l, rejected[gr.Intn(len(rejected))], rejected[gr.Intn(len(rejected))])
			l = append(l, focusReqs(d.Focus, gr)...)
			l = append(l, rejected[gr.Intn(len(rejected))])
			l = append(l, focusReqs(d.Focus, gr)...)
			lists[g] = l
			continue
		}
		// climb through the RS degrees, in an order private to this goroutine
		climb := append(append([]Req{}, qrDeg...), dmDeg...)
		switch g % 3 {
		case 1:
			for i, j := 0, len(climb)-1; i < j; i, j = i+1, j-1 {
				climb[i], climb[j] = climb[j], climb[i]
			}
		case 2:
			gr.Shuffle(len(climb), func(i, j int) { climb[i], climb[j] = climb[j], climb[i] })
		}
		for i, q := range climb {
			l = append(l, q)
			if i%3 == 0 {
				l = append(l, fixed[gr.Intn(len(fixed))])
			}
			if i%4 == 1 {
				l = append(l, pool[gr.Intn(len(pool))])
			}
			if i%2 == 0 {
				l = append(l, rejected[gr.Intn(len(rejected))])
			}
		}
		for len(l) < d.PerG {
			l = append(l, pool[gr.Intn(len(pool))])
		}
		if len(l) > d.PerG && d.PerG > 0 {
			// keep the climb at the front: it is what contends
			l = l[:max(d.PerG, len(climb))]
		}
		lists[g] = l
	}
	return lists
}

type rsShared struct {
	enc  *utils.ReedSolomonEncoder
	rf   refdec.Field
	base int
	size int
}

func auxRaceWork(args []string) int {
	if len(args) != 2 {
		fmt.Fprintln(os.Stderr, "usage: aux racework <desc.json> <out.json>")
		return 2
	}
	b, err := os.ReadFile(args[0])
	if err != nil {
		return 2
	}
	var d raceDesc
	if json.Unmarshal(b, &d) != nil {
		return 2
	}
	runtime.GOMAXPROCS(d.Procs)
	lists := raceRequests(&d)
	out := &raceOut{ID: d.ID, Digests: map[string]string{}}

	// shared objects created before the barrier.  They must not warm up what the
	// descriptor's focus wants to hit cold, so their families depend on the focus.
	excluded := map[string]bool{}
	switch d.Focus {
	case "code128":
		excluded["code128"] = true
	case "ean-2of5-codabar":
		excluded["ean"], excluded["2of5"], excluded["codabar"] = true, true, true
	case "code39-93-long":
		excluded["code39"], excluded["code93"] = true, true
	case "onedim":
		for _, f := range []string{"code128", "ean", "2of5", "codabar", "code39", "code93"} {
			excluded[f] = true
		}
	}
	if d.Hammer != "" {
		excluded[strings.TrimSuffix(d.Hammer, "nocs")] = true
	}
	var src1D, srcEAN barcode.Barcode
	for _, cand := range []Req{{Fam: "code128", S: []byte("shared-source"), Scheme: -1}, {Fam: "codabar", S: []byte("A1234B"), Scheme: -1}, {Fam: "code39", S: []byte("SHARED"), I: []int64{1, 0}, Scheme: -1}} {
		if !excluded[cand.Fam] && src1D == nil {
			src1D, _ = cand.do()
		}
	}
	for _, cand := range []Req{{Fam: "ean", S: []byte("5512345"), Scheme: 7}, {Fam: "2of5", S: []byte("1234"), I: []int64{1}, Scheme: 7}, {Fam: "code93", S: []byte("SHARED"), I: []int64{1, 0}, Scheme: 7}} {
		if !excluded[cand.Fam] && srcEAN == nil {
			srcEAN, _ = cand.do()
		}
	}
	// a shared *scaled* 2D barcode (PDF417 touches no shared library state) whose pixels
	// are read by all goroutines at once
	srcReq := Req{Fam: "pdf417", S: []byte("shared scaled 2D source"), I: []int64{2}, Scheme: -1}
	if d.Focus == "pdf417" {
		srcReq = Req{Fam: "codabar", S: []byte("A987654321B"), Scheme: -1} // 1D stands in
	}
	srcPDF, _ := srcReq.do()
	var scaled2D barcode.Barcode
	var scaledWant []color.Color
	if srcPDF != nil && srcPDF.Metadata().Dimensions == 1 {
		srcPDF = nil
	}
	if srcPDF != nil {
		pb := srcPDF.Bounds()
		scaled2D, _ = barcode.Scale(srcPDF, 2*pb.Dx()+3, 2*pb.Dy()+1)
		if scaled2D != nil {
			sb := scaled2D.Bounds()
			scaledWant = make([]color.Color, sb.Dx()*sb.Dy())
			for y := 0; y < sb.Dy(); y++ {
				for x := 0; x < sb.Dx(); x++ {
					ox, oy := (sb.Dx()-2*pb.Dx())/2, (sb.Dy()-2*pb.Dy())/2
					var want color.Color = color.White
					if x >= ox && x < ox+2*pb.Dx() && y >= oy && y < oy+2*pb.Dy() {
						want = srcPDF.At((x-ox)/2, (y-oy)/2)
					}
					scaledWant[y*sb.Dx()+x] = want
				}
			}
		}
	}
	// further shared scaled 2D barcodes with large factors (8, 9, 13): rows far apart
	// are read at the same time
	type bigScaled struct {
		bc, src barcode.Barcode
		f       int
		ox, oy  int
	}
	var bigs []bigScaled
	if srcPDF != nil {
		pb := srcPDF.Bounds()
		for _, f := range []int{8, 9, 13} {
			w, h := f*pb.Dx()+f-1, f*pb.Dy()+3
			if sc, err := barcode.Scale(srcPDF, w, h); err == nil && sc != nil {
				bigs = append(bigs, bigScaled{sc, srcPDF, f, (w - f*pb.Dx()) / 2, (h - f*pb.Dy()) / 2})
			}
		}
	}
	// returned barcodes (and Scale wrappers of them) whose accessors are called by all
	// goroutines at once; nothing but the constructor has touched them before the barrier
	type sharedAcc struct {
		bc   barcode.Barcode
		want string
		fam  string
	}
	var accs []sharedAcc
	if !strings.HasPrefix(d.Focus, "aztec") {
		excluded["aztec-ok"] = false
		for _, q := range []Req{{Fam: "aztec", S: []byte("shared aztec payload 12345"), I: []int64{33, 0}, Scheme: -1}, {Fam: "aztec", S: []byte("second, shared. payload"), I: []int64{23, 3}, Scheme: 9}} {
			if bc, err := q.do(); err == nil && bc != nil {
				accs = append(accs, sharedAcc{bc, string(q.S), "aztec"})
				if sc, err := barcode.Scale(bc, 2*bc.Bounds().Dx(), 2*bc.Bounds().Dy()+1); err == nil {
					accs = append(accs, sharedAcc{sc, string(q.S), "aztec(scaled)"})
				}
			}
		}
	}
	for _, s := range []barcode.Barcode{src1D, srcEAN, srcPDF} {
		if s != nil {
			accs = append(accs, sharedAcc{s, "", s.Metadata().CodeKind})
		}
	}
	untouchedQ := untouchedReqs(&d)
	untouched := make([]barcode.Barcode, len(untouchedQ))
	for i, q := range untouchedQ {
		untouched[i], _ = q.do() // nothing is called on the result before the barrier
	}
	// Scale wrappers of fresh instances of the same requests: nothing is called on a
	// wrapper before the barrier, all goroutines make their first reads of it together
	untouchedScaled := make([]barcode.Barcode, len(untouchedQ))
	scaledDims := func(b barcode.Barcode) (int, int) {
		w, h := 2*b.Bounds().Dx()+1, 2*b.Bounds().Dy()+1
		if b.Bounds().Dy() == 1 {
			h = 3
		}
		return w, h
	}
	for i, q := range untouchedQ {
		if src, _ := q.do(); src != nil {
			w, h := scaledDims(src)
			untouchedScaled[i], _ = barcode.Scale(src, w, h)
		}
	}
	var shared []rsShared
	for _, fs := range c17Fields {
		gf := utils.NewGaloisField(fs.pp, fs.size, fs.base)
		shared = append(shared, rsShared{utils.NewReedSolomonEncoder(gf), refField(fs), fs.base, fs.size})
	}
	var sinkMu sync.Mutex
	if d.Sink {
		utils.VerifPolySink = func(ev *utils.VerifPolyEvent) {
			sinkMu.Lock()
			defer sinkMu.Unlock()
			if ev.LenAfter > ev.LenBefore {
				out.Growths++
				if ev.Waiters > 0 {
					out.Contended++
				}
			}
			if rf, ok := fieldRef(ev.Field); ok {
				if msg := polyCacheInvariant(ev, rf, ev.Field.Base); msg != "" && len(out.Problems) < 10 {
					out.Problems = append(out.Problems, "cache-invariant: "+msg)
				}
			}
		}
	}

	type rec struct {
		key    string
		digest string
		panic  string
		t0, t1 time.Time
	}
	logs := make([][]rec, d.Goroutines)
	probs := make([][]string, d.Goroutines)
	rounds := newCyclicBarrier(d.Goroutines)
	hammered := make([]int, d.Goroutines)
	start := make(chan struct{})
	var wg sync.WaitGroup
	for g := 0; g < d.Goroutines; g++ {
		wg.Add(1)
		go func(g int) {
			defer wg.Done()
			gr := rand.New(rand.NewSource(d.Seed*7 + int64(g)))
			my := make([]rec, 0, len(lists[g])+8)
			var heldErr error
			var heldText string
			<-start
			if d.Twin != "" {
				rounds.await() // tight start: everybody leaves together
			}
			for k, ub := range untouched {
				if ub == nil {
					continue
				}
				rc := rec{key: untouchedQ[k].Key(), t0: time.Now()}
				var dg string
				if pv, st := fw.Call(func() {
					if sc, err := barcode.Scale(ub, 2*ub.Bounds().Dx()+g%3, 2*ub.Bounds().Dy()+1); err != nil || sc == nil {
						probs[g] = append(probs[g], fmt.Sprintf("untouched shared barcode: Scale failed: %v", err))
					} else {
						_ = sc.At(sc.Bounds().Dx()/2, sc.Bounds().Dy()/2)
					}
					dg = digest(ub)
				}); pv != nil {
					rc.panic = fmt.Sprintf("%v\n%s", pv, st)
				}
				rc.digest, rc.t1 = dg, time.Now()
				my = append(my, rc)
			}
			for k, us := range untouchedScaled {
				if us == nil {
					continue
				}
				if pv, _ := fw.Call(func() {
					dg := digest(us)
					if src, _ := untouchedQ[k].do(); src != nil {
						w, h := scaledDims(src)
						if mine, _ := barcode.Scale(src, w, h); mine == nil || digest(mine) != dg {
							probs[g] = append(probs[g], fmt.Sprintf("untouched shared Scale wrapper: first reads made by all goroutines together differ from a private wrapper of the same request (%s)", untouchedQ[k].Fam))
						}
					}
				}); pv != nil {
					probs[g] = append(probs[g], fmt.Sprintf("untouched shared Scale wrapper: panic during concurrent first reads (%s): %v", untouchedQ[k].Fam, pv))
				}
			}
			for i, q := range lists[g] {
				if d.Twin != "" && i > 0 {
					rounds.await() // next simultaneous first use
				}
				var rc rec
				rc.key = q.Key()
				rc.t0 = time.Now()
				o := q.call()
				rc.t1 = time.Now()
				switch {
				case o.panic != nil:
					rc.panic = fmt.Sprintf("%v\n%s", o.panic, o.stack)
				case o.err != nil || o.bc == nil:
					rc.digest = "rejected"
					if o.err != nil {
						// errors are results too: read now and again a few calls later
						if heldErr != nil && heldErr.Error() != heldText {
							probs[g] = append(probs[g], fmt.Sprintf("retained error: an error returned earlier read %q and now reads %q", heldText, heldErr.Error()))
						}
						heldErr, heldText = o.err, o.err.Error()
					}
				default:
					rc.digest = digest(o.bc)
				}
				my = append(my, rc)
				if i%5 == 2 {
					// Scale on shared sources with concurrent pixel reads
					for _, s := range []barcode.Barcode{src1D, srcEAN} {
						if s == nil {
							continue
						}
						w := s.Bounds().Dx()*(1+gr.Intn(3)) + gr.Intn(7)
						sc, err := barcode.Scale(s, w, 3)
						if err != nil || sc == nil {
							probs[g] = append(probs[g], fmt.Sprintf("Scale of a shared source failed: %v", err))
							continue
						}
						var fill color.Color = color.White
						if c, ok := s.(barcode.BarcodeColor); ok {
							fill = c.ColorScheme().Background
						}
						if msg, _ := scaleModel(s, sc, nil, w, 3, fill); msg != "" {
							probs[g] = append(probs[g], "Scale under concurrency: "+msg)
						}
					}
				}
				if i%3 == 0 {
					for _, a := range accs {
						ct := a.bc.Content()
						if a.want != "" && ct != a.want {
							probs[g] = append(probs[g], fmt.Sprintf("shared barcode accessor: Content() of a shared %s barcode read concurrently = %q, want %q", a.fam, ct, a.want))
						}
						_ = a.bc.Metadata()
						_ = a.bc.Bounds()
						_ = a.bc.ColorModel()
						if cs, ok := a.bc.(barcode.BarcodeIntCS); ok {
							_ = cs.CheckSum()
						}
						if cc, ok := a.bc.(barcode.BarcodeColor); ok {
							_ = cc.ColorScheme()
						}
						_ = a.bc.At(gr.Intn(a.bc.Bounds().Dx()), 0)
					}
				}
				if i%3 == 1 && scaled2D != nil {
					sb := scaled2D.Bounds()
					y0 := gr.Intn(sb.Dy())
					for y := y0; y < sb.Dy() && y < y0+6; y++ {
						for x := 0; x < sb.Dx(); x++ {
							if got := scaled2D.At(x, y); got != scaledWant[y*sb.Dx()+x] {
								probs[g] = append(probs[g], fmt.Sprintf("shared scaled barcode: pixel (%d,%d) read concurrently = %v, want %v", x, y, got, scaledWant[y*sb.Dx()+x]))
								x, y = sb.Dx(), sb.Dy()
							}
						}
					}
				}
				if i%3 == 2 && len(bigs) > 0 {
					b := bigs[gr.Intn(len(bigs))]
					sb, pb := b.bc.Bounds(), b.src.Bounds()
					for k := 0; k < 400; k++ {
						x, y := gr.Intn(sb.Dx()), gr.Intn(sb.Dy())
						if k%2 == 0 {
							y = (g*b.f*3 + k/8) % sb.Dy() // each goroutine stays in its own band of rows
						}
						var want color.Color = color.White
						if x >= b.ox && x < b.ox+b.f*pb.Dx() && y >= b.oy && y < b.oy+b.f*pb.Dy() {
							want = b.src.At((x-b.ox)/b.f, (y-b.oy)/b.f)
						}
						if got := b.bc.At(x, y); got != want {
							probs[g] = append(probs[g], fmt.Sprintf("shared scaled barcode (factor %d): pixel (%d,%d) read concurrently = %v, want %v", b.f, x, y, got, want))
							break
						}
					}
				}
				if i%4 == 3 {
					// shared harness-owned RS encoders: random degrees, verified by syndromes
					sh := shared[gr.Intn(len(shared))]
					k := 1 + gr.Intn(min(600, 2*sh.size))
					data := make([]int, 1+gr.Intn(30))
					for j := range data {
						data[j] = gr.Intn(sh.size)
					}
					var ecc []int
					pv, _ := fw.Call(func() { ecc = sh.enc.Encode(data, k) })
					if pv != nil {
						probs[g] = append(probs[g], fmt.Sprintf("shared RS encoder panicked: %v", pv))
					} else if len(ecc) != k {
						probs[g] = append(probs[g], fmt.Sprintf("shared RS encoder returned %d of %d check symbols", len(ecc), k))
					} else if ok, e := sh.rf.SyndromesZero(append(append([]int{}, data...), ecc...), sh.base, k); !ok {
						probs[g] = append(probs[g], fmt.Sprintf("shared RS encoder syndrome: GF(%d), k=%d: result fails at alpha^%d", sh.size, k, e))
					}
				}
			}
			if d.Hammer != "" {
				n := 1500
				if d.Hammer == "qr" || d.Hammer == "datamatrix" || d.Hammer == "pdf417" || d.Hammer == "aztec" {
					n = 150
				}
				if d.HammerN > 0 {
					n = d.HammerN
				}
				for it := 0; it < n && len(probs[g]) < 5; it++ {
					q := randomValidReq(gr, d.Hammer, -1)
					if d.Twin != "" && it%2 == 0 {
						// stay in the twin's class: same parameters, fresh content of the same length
						q = twinFirst(d.Twin, d.Seed, g+it/2)[0]
						q.S = append([]byte{}, q.S...)
						if d.Hammer != "ean" && len(q.S) > 2 {
							q.S[len(q.S)/2], q.S[len(q.S)/2+1] = q.S[len(q.S)/2+1], q.S[len(q.S)/2]
						}
					}
					if (d.Hammer == "code39" || d.Hammer == "code93") && len(q.S) == 0 {
						continue
					}
					if rj := rejectedByFam[strings.TrimSuffix(d.Hammer, "nocs")]; it%7 == 3 && len(rj) > 0 {
						// a refusal in between (error paths release or reset things too)
						bad := rj[gr.Intn(len(rj))]
						if bo := bad.call(); bo.panic != nil {
							probs[g] = append(probs[g], fmt.Sprintf("hammer: %s panics: %v", bad, bo.panic))
						} else if bo.err == nil {
							probs[g] = append(probs[g], fmt.Sprintf("hammer: %s must be refused but was accepted", bad))
						}
						hammered[g]++
					}
					o := q.call()
					hammered[g]++
					switch {
					case o.panic != nil:
						probs[g] = append(probs[g], fmt.Sprintf("hammer: %s panics: %v", q, o.panic))
					case o.err != nil || o.bc == nil:
						probs[g] = append(probs[g], fmt.Sprintf("hammer: valid request %s refused: %v", q, o.err))
					default:
						if msg := verifyDecoded(q, o.bc); msg != "" {
							probs[g] = append(probs[g], fmt.Sprintf("hammer: %s under concurrency: %s", q, msg))
						}
					}
				}
			}
			logs[g] = my
		}(g)
	}
	close(start)
	wg.Wait()
	utils.VerifPolySink = nil

	// merge the private logs
	type iv struct {
		t     time.Time
		delta int
	}
	var ivs []iv
	for g := range logs {
		out.Problems = append(out.Problems, probs[g]...)
		out.Calls += hammered[g]
		out.Hammered += hammered[g]
		for _, rc := range logs[g] {
			out.Calls++
			if rc.panic != "" {
				if len(out.Panics) < 5 {
					out.Panics = append(out.Panics, rc.key+": "+rc.panic)
				}
				continue
			}
			if prev, ok := out.Digests[rc.key]; ok && prev != rc.digest {
				out.Conflicts = append(out.Conflicts, fmt.Sprintf("%s: %s vs %s", rc.key, prev, rc.digest))
			} else {
				out.Digests[rc.key] = rc.digest
			}
			ivs = append(ivs, iv{rc.t0, 1}, iv{rc.t1, -1})
		}
	}
	sort.Slice(ivs, func(i, j int) bool {
		if ivs[i].t.Equal(ivs[j].t) {
			return ivs[i].delta < ivs[j].delta
		}
		return ivs[i].t.Before(ivs[j].t)
	})
	cur := 0
	for _, x := range ivs {
		if x.delta == 1 {
			out.Overlap += int64(cur)
			cur++
			if cur > out.MaxInFlight {
				out.MaxInFlight = cur
			}
		} else {
			cur--
		}
	}
	leaked, _ := fw.LeakVerdict()
	out.Leaked = len(leaked)
	if len(leaked) > 0 {
		out.LeakSample = leaked[0]
	}
	ob, _ := json.Marshal(out)
	if os.WriteFile(args[1], ob, 0o644) != nil {
		return 2
	}
	return 0
}

var raceFrameRe = regexp.MustCompile(`(?m)^\s+(github\.com/boombuler/barcode[^\n]*?)\(\)\s*$`)

// raceReports extracts de-duplicated race reports from the race log files.
func raceReports(dir string) (total int, byEntry map[string]int, byStack map[string]string) {
	byEntry = map[string]int{}
	byStack = map[string]string{}
	files, _ := filepath.Glob(filepath.Join(dir, "race.*"))
	for _, f := range files {
		b, err := os.ReadFile(f)
		if err != nil {
			continue
		}
		for _, blk := range strings.Split(string(b), "==================") {
			if !strings.Contains(blk, "WARNING: DATA RACE") {
				continue
			}
			total++
			// the two access stacks: split at the second access header
			parts := regexp.MustCompile(`(?m)^(Previous |)(read|write|atomic)[^\n]*\n`).Split(blk, -1)
			var entries []string
			var stripped []string
			for _, p := range parts[1:] {
				if i := strings.Index(p, "\n\n"); i >= 0 {
					p = p[:i]
				}
				fr := raceFrameRe.FindAllStringSubmatch(p, -1)
				if len(fr) > 0 {
					entries = append(entries, fr[len(fr)-1][1]) // outermost library frame
					var names []string
					for _, m := range fr {
						names = append(names, m[1])
					}
					stripped = append(stripped, strings.Join(names, "<"))
				}
				if len(entries) == 2 {
					break
				}
			}
			sort.Strings(entries)
			ek := strings.Join(entries, " || ")
			byEntry[ek]++
			sk := strings.Join(stripped, " || ")
			if _, ok := byStack[sk]; !ok {
				if len(blk) > 3000 {
					blk = blk[:3000]
				}
				byStack[sk] = blk
			}
		}
	}
	return
}

func (p c16) Run(par *fw.Parent) *fw.Result {
	merged := &fw.Result{Cov: map[string]map[string]int64{}, ViolCounts: map[string]int64{}, Extra: map[string]int64{}}
	cover := func(dim, v string) {
		if merged.Cov[dim] == nil {
			merged.Cov[dim] = map[string]int64{}
		}
		merged.Cov[dim][v]++
	}
	viol := func(key, msg, inner, detail string) {
		merged.ViolCounts[key]++
		if merged.ViolCounts[key] <= 3 {
			merged.Violations = append(merged.Violations, fw.Violation{Key: key, Msg: msg, Inner: inner, Detail: detail})
		}
	}
	if par.RaceBin == "" {
		merged.Inconclusive = append(merged.Inconclusive, "no -race binary")
		return merged
	}
	if _, err := os.Stat(par.RaceBin); err != nil {
		merged.Inconclusive = append(merged.Inconclusive, "no -race binary: "+err.Error())
		return merged
	}
	r := rngFor(par.Seed, "C16")
	nproc := 24
	if par.Tier == "thorough" {
		nproc = 300
	}
	procsGrid := []int{1, 2, 4, 8, 16}
	gorGrid := []int{2, 4, 8, 16, 32, 64}
	var descs []raceDesc
	for i := 0; i < nproc; i++ {
		d := raceDesc{ID: fmt.Sprintf("race-%d", i), Seed: r.Int63(), Procs: procsGrid[i%len(procsGrid)], Goroutines: gorGrid[(i/len(procsGrid))%len(gorGrid)]}
		d.PerG = 40
		if d.Goroutines >= 32 {
			d.PerG = 30
		}
		d.Focus = raceFocuses[(i/3)%len(raceFocuses)]
		descs = append(descs, d)
	}
	// many cheap cold starts for the 1D and small-symbol packages
	nmicro := 48
	if par.Tier == "thorough" {
		nmicro = 400
	}
	for i := 0; i < nmicro; i++ {
		descs = append(descs, raceDesc{ID: fmt.Sprintf("micro-%d", i), Seed: r.Int63(), Procs: []int{2, 4, 8, 16}[i%4], Goroutines: []int{4, 8, 16}[(i/4)%3], Micro: true, Focus: microFocuses[i%len(microFocuses)]})
	}
	// tight loops on one family with inline decoding
	nham := 1
	if par.Tier == "thorough" {
		nham = 6
	}
	for k := 0; k < nham; k++ {
		for i, fam := range hammerFamilies {
			descs = append(descs, raceDesc{ID: fmt.Sprintf("hammer-%s-%d", fam, k), Seed: r.Int63(), Procs: []int{8, 16, 4, 2}[(i+k)%4], Goroutines: []int{8, 16, 4}[(i+2*k)%3], Micro: true, Focus: "hammer", Hammer: fam})
		}
	}
	// twin cold starts: the same request class first-used by all goroutines at once
	ntwin := 3
	if par.Tier == "thorough" {
		ntwin = 24
	}
	for i, cl := range twinClasses {
		fam := cl
		if j := strings.IndexByte(cl, ':'); j >= 0 {
			fam = cl[:j]
		}
		reps := ntwin
		twoD := fam == "qr" || fam == "datamatrix" || fam == "aztec" || fam == "pdf417"
		switch {
		case !twoD:
			reps = 8 * ntwin // a 1D cold start costs some 60 ms and its windows are a few microseconds wide
		case strings.HasSuffix(cl, ":rounds") || strings.HasSuffix(cl, "big") || cl == "datamatrix:144" || cl == "qr:30":
			reps = (2*ntwin + 2) / 3
		}
		hn := 24
		if twoD {
			hn = 6
		}
		for k := 0; k < reps; k++ {
			descs = append(descs, raceDesc{ID: fmt.Sprintf("twin-%s-%d", strings.NewReplacer(":", "_", "+", "and").Replace(cl), k), Seed: r.Int63(), Procs: 16, Goroutines: []int{8, 16, 4, 16, 3}[(i+k)%5], Micro: true, Focus: "twin", Twin: cl, Hammer: fam, HammerN: hn})
		}
	}
	// free-running streams of large Aztec symbols (calls drift out of phase)
	nbig := 2
	if par.Tier == "thorough" {
		nbig = 12
	}
	for i := 0; i < nbig; i++ {
		descs = append(descs, raceDesc{ID: fmt.Sprintf("bigstream-%d", i), Seed: r.Int63(), Procs: []int{8, 16}[i%2], Goroutines: 8, Micro: true, Focus: "aztec-big-stream"})
	}
	// non-deciding contention pass with the sink on (plain binary is enough)
	nsink := 4
	if par.Tier == "thorough" {
		nsink = 24
	}
	for i := 0; i < nsink; i++ {
		descs = append(descs, raceDesc{ID: fmt.Sprintf("sink-%d", i), Seed: r.Int63(), Procs: []int{4, 16}[i%2], Goroutines: []int{8, 32}[(i/2)%2], PerG: 30, Sink: true})
	}

	type procRes struct {
		out      *raceOut
		note     string
		dir      string
		deadlock string
	}
	results := make([]procRes, len(descs))
	// concurrency of processes: leave room for each process' own GOMAXPROCS
	sem := make(chan struct{}, 6)
	var wg sync.WaitGroup
	for i := range descs {
		wg.Add(1)
		sem <- struct{}{}
		go func(i int) {
			defer wg.Done()
			defer func() { <-sem }()
			d := &descs[i]
			dir := filepath.Join(par.WorkDir, d.ID)
			os.MkdirAll(dir, 0o755)
			jf, of, ef := filepath.Join(dir, "desc.json"), filepath.Join(dir, "out.json"), filepath.Join(dir, "stderr")
			b, _ := json.Marshal(d)
			os.WriteFile(jf, b, 0o644)
			bin := par.RaceBin
			cmd := exec.Command(bin, "aux", "racework", jf, of)
			e, _ := os.Create(ef)
			cmd.Stdout, cmd.Stderr = e, e
			cmd.Env = append(os.Environ(), "GORACE=halt_on_error=0 log_path="+filepath.Join(dir, "race"), "GOTRACEBACK=all")
			done := make(chan error, 1)
			if err := cmd.Start(); err != nil {
				results[i] = procRes{note: "cannot start: " + err.Error(), dir: dir}
				e.Close()
				return
			}
			go func() { done <- cmd.Wait() }()
			var err error
			// A process whose CPU time stands still has every goroutine blocked.  That is
			// a state, not a deadline: it is confirmed by the goroutine dump (SIGQUIT);
			// the wall clock only decides when to look.
			idle, lastCPU, began, stalled := 0, -1.0, time.Now(), false
		wait:
			for {
				select {
				case err = <-done:
					break wait
				case <-time.After(500 * time.Millisecond):
					cpu := fw.CPUSeconds(cmd.Process.Pid)
					if cpu >= 0 && cpu-lastCPU < 0.02 {
						idle++
					} else {
						idle, lastCPU = 0, cpu
					}
					if idle >= 40 && !stalled {
						stalled = true
						cmd.Process.Signal(syscall.SIGQUIT)
					}
					if stalled && idle >= 80 {
						cmd.Process.Kill()
					}
					if time.Since(began) > 20*time.Minute {
						cmd.Process.Kill()
						err = fmt.Errorf("outer watchdog")
					}
				}
			}
			e.Close()
			if stalled {
				dump := headFileLocal(ef, 60000)
				pr := procRes{note: fmt.Sprintf("process %s stopped consuming CPU", d.ID), dir: dir}
				if g := blockedInLibrary(dump); g != "" {
					pr.deadlock = "all goroutines are asleep (no CPU consumed); blocked inside the library:\n" + g
				}
				results[i] = pr
				return
			}
			var o raceOut
			ob, rerr := os.ReadFile(of)
			if rerr != nil || json.Unmarshal(ob, &o) != nil {
				head := headFileLocal(ef, 4000)
				pr := procRes{note: fmt.Sprintf("process %s produced no result: %v", d.ID, err), dir: dir}
				if strings.Contains(head, "all goroutines are asleep") || strings.Contains(head, "fatal error") || strings.Contains(head, "panic:") {
					pr.deadlock = head
				}
				results[i] = pr
				return
			}
			results[i] = procRes{out: &o, dir: dir}
		}(i)
	}
	wg.Wait()

	// sequential baseline: one plain process per descriptor list would be wasteful;
	// all requests of all descriptors go through one sequential history process.
	uniq := map[string]Req{}
	for i := range descs {
		for _, l := range raceRequests(&descs[i]) {
			for _, q := range l {
				uniq[q.Key()] = q
			}
		}
	}
	for i := range descs {
		for _, q := range untouchedReqs(&descs[i]) {
			uniq[q.Key()] = q
		}
	}
	var keys []string
	for k := range uniq {
		keys = append(keys, k)
	}
	sort.Strings(keys)
	var baseJobs []histJob
	const chunk = 400
	for i := 0; i < len(keys); i += chunk {
		var reqs []Req
		for _, k := range keys[i:min(i+chunk, len(keys))] {
			reqs = append(reqs, uniq[k])
		}
		baseJobs = append(baseJobs, histJob{ID: fmt.Sprintf("baseline-%d", i/chunk), Kind: "history", Reqs: reqs})
	}
	bres, notes := runJobs(par.Self, par.WorkDir, baseJobs, par.Workers, nil)
	merged.Inconclusive = append(merged.Inconclusive, notes...)
	baseline := map[string]string{}
	for _, br := range bres {
		if br == nil {
			continue
		}
		for _, ev := range br.Events {
			d := ev.Digest
			if d == "" {
				d = "rejected"
			}
			if ev.Panic != "" {
				d = "panic"
			}
			baseline[ev.Key] = d
		}
	}

	totalRaces := 0
	for i, pr := range results {
		d := descs[i]
		merged.Units++
		if pr.out == nil {
			if pr.deadlock != "" && strings.Contains(pr.deadlock, "github.com/boombuler/barcode") {
				key := "concurrency/crash"
				if strings.Contains(pr.deadlock, "all goroutines are asleep") {
					key = "concurrency/deadlock"
				} else if strings.Contains(pr.deadlock, "concurrent map") {
					key = "concurrency/concurrent-map-access"
				}
				viol(key, "process died under the concurrent workload", fmt.Sprintf("descriptor %+v", d), pr.deadlock)
			} else {
				merged.Inconclusive = append(merged.Inconclusive, pr.note+" "+pr.deadlock)
			}
			continue
		}
		o := pr.out
		merged.Evals += int64(o.Calls)
		for _, dg := range o.Digests {
			if dg == "rejected" {
				merged.Extra["distinct_rejected_requests_in_concurrent_runs"]++
			}
		}
		if !d.Sink {
			cover("grid(goroutines x GOMAXPROCS)", fmt.Sprintf("%dx%d", d.Goroutines, d.Procs))
			cover("cold_start_focus", d.Focus)
			n, byEntry, byStack := raceReports(pr.dir)
			totalRaces += n
			for ek, cnt := range byEntry {
				cover("race_report_entry_pairs", ek)
				_ = cnt
			}
			for sk, blk := range byStack {
				viol("race:"+raceKey(sk), fmt.Sprintf("race detector report (%d reports in process %s)", n, d.ID), fmt.Sprintf("descriptor %+v", d), blk)
			}
			merged.Extra["hammer_calls_decoded_inline"] += int64(o.Hammered)
			if d.Hammer != "" && d.Twin == "" {
				cover("hammer_family", d.Hammer)
			}
			if d.Twin != "" {
				cover("twin_cold_start_class", d.Twin)
			}
			merged.Extra["max_in_flight_calls"] = max64(merged.Extra["max_in_flight_calls"], int64(o.MaxInFlight))
			merged.Extra["overlapping_call_pairs"] += o.Overlap
		} else {
			merged.Extra["sinkpass_growth_events"] += int64(o.Growths)
			merged.Extra["sinkpass_growth_events_with_waiters"] += int64(o.Contended)
		}
		for _, pn := range o.Panics {
			viol("concurrency/panic", "panic in a concurrent call", fmt.Sprintf("descriptor %+v", d), pn)
		}
		for _, cf := range o.Conflicts {
			viol("concurrency/result-differs-within-process", cf, fmt.Sprintf("descriptor %+v", d), "")
		}
		for _, pb := range o.Problems {
			viol("concurrency/"+prefixOf(pb), pb, fmt.Sprintf("descriptor %+v", d), "")
		}
		if o.Leaked > 0 {
			viol("goroutine-leak", fmt.Sprintf("%d library goroutines blocked forever after all calls returned", o.Leaked), fmt.Sprintf("descriptor %+v", d), o.LeakSample)
		}
		for k, dg := range o.Digests {
			want, ok := baseline[k]
			if !ok {
				continue
			}
			if dg != want {
				viol("concurrency/result-differs-from-sequential/"+k[:strings.IndexByte(k, '|')], fmt.Sprintf("concurrent result %s, sequential baseline %s", dg, want), fmt.Sprintf("descriptor %+v request %s", d, k), "")
			} else {
				merged.Nontrivial++
			}
		}
	}
	merged.Extra["race_reports"] = int64(totalRaces)
	merged.Extra["processes"] = int64(len(descs))
	merged.Extra["baseline_requests"] = int64(len(baseline))
	for i := 0; i < 3 && i < len(descs); i++ {
		b, _ := json.Marshal(map[string]any{"descriptor": descs[i], "calls": func() int {
			if results[i].out != nil {
				return results[i].out.Calls
			}
			return 0
		}()})
		merged.Samples = append(merged.Samples, b)
	}
	return merged
}

// blockedInLibrary returns the first goroutine of a dump that is blocked on a
// channel / select / semaphore with a library frame on its stack.
func blockedInLibrary(dump string) string {
	// a starved but healthy process still has goroutines that want to run
	for _, g := range strings.Split(dump, "\n\n") {
		if strings.HasPrefix(g, "goroutine ") && !strings.HasPrefix(g, "goroutine 0 ") {
			head := g
			if i := strings.IndexByte(g, '\n'); i >= 0 {
				head = g[:i]
			}
			if strings.Contains(head, "[running") || strings.Contains(head, "[runnable") {
				return ""
			}
		}
	}
	for _, g := range strings.Split(dump, "\n\n") {
		if !strings.HasPrefix(g, "goroutine ") {
			continue
		}
		head := g
		if i := strings.IndexByte(g, '\n'); i >= 0 {
			head = g[:i]
		}
		if !(strings.Contains(head, "chan receive") || strings.Contains(head, "chan send") || strings.Contains(head, "select") || strings.Contains(head, "semacquire") || strings.Contains(head, "sync.")) {
			continue
		}
		body := g
		if i := strings.Index(body, "created by"); i >= 0 {
			body = body[:i]
		}
		if strings.Contains(body, "github.com/boombuler/barcode") {
			if len(g) > 2500 {
				g = g[:2500]
			}
			return g
		}
	}
	return ""
}

func max64(a, b int64) int64 {
	if a > b {
		return a
	}
	return b
}

func raceKey(stackPair string) string {
	// compact, stable key from the innermost frames of both stacks
	parts := strings.Split(stackPair, " || ")
	var in []string
	for _, p := range parts {
		f := strings.Split(p, "<")
		in = append(in, strings.TrimPrefix(f[0], "github.com/boombuler/barcode/"))
	}
	sort.Strings(in)
	return strings.Join(in, "~")
}

func prefixOf(s string) string {
	if i := strings.IndexByte(s, ':'); i >= 0 {
		return s[:i]
	}
	if len(s) > 30 {
		return s[:30]
	}
	return s
}

// Replay re-runs the whole seed-determined workload of the recorded run (schedules are
// not reproducible; the descriptors and the race log are) and reports whether a
// violation with the same key shows again.
func (p c16) Replay(par *fw.Parent, v *fw.Violation) int {
	return replayWhole(par, p.Run(par), v)
}

func replayWhole(par *fw.Parent, merged *fw.Result, v *fw.Violation) int {
	defer os.RemoveAll(par.WorkDir)
	n := 0
	for _, w := range merged.Violations {
		if w.Key == v.Key {
			n++
			fmt.Printf("REPRODUCED key=%s msg=%s inner=%s\n", w.Key, w.Msg, w.Inner)
		}
	}
	for k, c := range merged.ViolCounts {
		fmt.Printf("# violations key=%s count=%d\n", k, c)
	}
	if n == 0 {
		fmt.Println("NOT-REPRODUCED: no violation with key " + v.Key + " in this re-run")
		return 0
	}
	return 1
}

// cyclicBarrier lets the goroutines of a twin process start every round together.
// Waiters spin for a short while on an atomic generation counter, so that all of them
// leave within a fraction of a microsecond of the last arrival (lazy initialisers have
// windows of a few microseconds), and fall back to a condition variable, so that a
// process in which one goroutine never arrives goes idle and is diagnosed as blocked.
type cyclicBarrier struct {
	mu       sync.Mutex
	cond     *sync.Cond
	n, count int
	gen      int
	genA     int32
}

func newCyclicBarrier(n int) *cyclicBarrier {
	b := &cyclicBarrier{n: n}
	b.cond = sync.NewCond(&b.mu)
	return b
}

func (b *cyclicBarrier) await() {
	b.mu.Lock()
	gen := b.gen
	b.count++
	if b.count == b.n {
		b.gen++
		b.count = 0
		atomic.StoreInt32(&b.genA, int32(b.gen))
		b.cond.Broadcast()
		b.mu.Unlock()
		return
	}
	b.mu.Unlock()
	for i := 0; i < 400000; i++ {
		if atomic.LoadInt32(&b.genA) != int32(gen) {
			return
		}
		if i%256 == 255 {
			runtime.Gosched()
		}
	}
	b.mu.Lock()
	for gen == b.gen {
		b.cond.Wait()
	}
	b.mu.Unlock()
}
