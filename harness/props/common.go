// Package props holds one monitor per property: workload generators that drive the
// real library and oracles that watch every execution.
package props

import (
	"bytes"
	"crypto/sha256"
	"encoding/binary"
	"encoding/hex"
	"encoding/json"
	"fmt"
	"image"
	"image/color"
	"math/rand"

	"github.com/boombuler/barcode"

	"verifharness/fw"
	"verifharness/refdec"
)

func hx(b []byte) string { return hex.EncodeToString(b) }

func short(s string) string {
	if len(s) > 120 {
		return fmt.Sprintf("%q…(%d bytes)", s[:120], len(s))
	}
	return fmt.Sprintf("%q", s)
}

// rngFor derives a PRNG from seed, property and a stream label.
func rngFor(seed int64, label string) *rand.Rand {
	h := sha256.Sum256([]byte(fmt.Sprintf("%d|%s", seed, label)))
	return rand.New(rand.NewSource(int64(binary.LittleEndian.Uint64(h[:8]))))
}

// isBW classifies a pixel of a plain Encode result: black → dark, white → light.
func isBW(c color.Color) (dark bool, ok bool) {
	r, g, b, a := c.RGBA()
	if a != 0xffff {
		return false, false
	}
	if r == 0 && g == 0 && b == 0 {
		return true, true
	}
	if r == 0xffff && g == 0xffff && b == 0xffff {
		return false, true
	}
	return false, false
}

// row1D extracts the module row of a 1D barcode rendered black on white.
func row1D(bc barcode.Barcode) ([]bool, error) {
	b := bc.Bounds()
	if b.Min.X != 0 || b.Min.Y != 0 || b.Dy() != 1 || b.Dx() < 1 {
		return nil, fmt.Errorf("bounds %v are not (0,0)-(n,1)", b)
	}
	out := make([]bool, b.Dx())
	for x := 0; x < b.Dx(); x++ {
		d, ok := isBW(bc.At(x, 0))
		if !ok {
			return nil, fmt.Errorf("pixel %d is neither black nor white", x)
		}
		out[x] = d
	}
	return out, nil
}

// grid2D extracts the module matrix of a 2D barcode rendered black on white.
func grid2D(bc barcode.Barcode) (*refdec.Grid, error) {
	b := bc.Bounds()
	if b.Min.X != 0 || b.Min.Y != 0 || b.Dx() < 1 || b.Dy() < 1 {
		return nil, fmt.Errorf("bounds %v do not start at (0,0)", b)
	}
	g := refdec.NewGrid(b.Dx(), b.Dy())
	for y := 0; y < g.H; y++ {
		for x := 0; x < g.W; x++ {
			d, ok := isBW(bc.At(x, y))
			if !ok {
				return nil, fmt.Errorf("pixel (%d,%d) is neither black nor white", x, y)
			}
			g.Dark[y*g.W+x] = d
		}
	}
	return g, nil
}

// gridScheme extracts the module matrix under a colour scheme using interface
// equality with the scheme's two colours.
func gridScheme(bc barcode.Barcode, fg, bg color.Color) (*refdec.Grid, error) {
	b := bc.Bounds()
	if b.Min.X != 0 || b.Min.Y != 0 || b.Dx() < 1 || b.Dy() < 1 {
		return nil, fmt.Errorf("bounds %v do not start at (0,0)", b)
	}
	g := refdec.NewGrid(b.Dx(), b.Dy())
	for y := 0; y < g.H; y++ {
		for x := 0; x < g.W; x++ {
			c := bc.At(x, y)
			switch {
			case sameColor(c, fg):
				g.Dark[y*g.W+x] = true
			case sameColor(c, bg):
			default:
				return nil, fmt.Errorf("pixel (%d,%d) = %#v is neither the foreground nor the background of the scheme", x, y, c)
			}
		}
	}
	return g, nil
}

// digest hashes everything observable about a barcode.
func digest(bc barcode.Barcode) string {
	h := sha256.New()
	b := bc.Bounds()
	fmt.Fprintf(h, "%v|", b)
	var buf [16]byte
	for y := b.Min.Y; y < b.Max.Y; y++ {
		for x := b.Min.X; x < b.Max.X; x++ {
			r, g, bb, a := bc.At(x, y).RGBA()
			binary.LittleEndian.PutUint32(buf[0:], r)
			binary.LittleEndian.PutUint32(buf[4:], g)
			binary.LittleEndian.PutUint32(buf[8:], bb)
			binary.LittleEndian.PutUint32(buf[12:], a)
			h.Write(buf[:])
		}
	}
	fmt.Fprintf(h, "|%q|%v", bc.Content(), bc.Metadata())
	if cs, ok := bc.(barcode.BarcodeIntCS); ok {
		fmt.Fprintf(h, "|cs=%d", cs.CheckSum())
	}
	if c, ok := bc.(barcode.BarcodeColor); ok {
		s := c.ColorScheme()
		fmt.Fprintf(h, "|%#v|%#v", s.Background, s.Foreground)
	}
	return hex.EncodeToString(h.Sum(nil))[:32]
}

// digestOrdered computes the same value as digest, but calls the accessors of bc in a
// different order: the scalar accessors first (in an order chosen by `order`), Bounds
// last, and the pixels — over the bounds b known from another instance of the same
// request — bottom-up right-to-left (order 0), column by column (1) or in a seed-chosen
// permutation with every pixel read twice (2).  A barcode whose accessors compute or
// cache anything on first use must not care.
func digestOrdered(bc barcode.Barcode, b image.Rectangle, order int, rnd *rand.Rand) string {
	var content string
	var md barcode.Metadata
	var cs int
	var hasCS bool
	var scheme barcode.ColorScheme
	var hasScheme bool
	readCS := func() {
		if x, ok := bc.(barcode.BarcodeIntCS); ok {
			cs, hasCS = x.CheckSum(), true
		}
	}
	readScheme := func() {
		if x, ok := bc.(barcode.BarcodeColor); ok {
			scheme, hasScheme = x.ColorScheme(), true
		}
	}
	w, h := b.Dx(), b.Dy()
	px := make([][4]uint32, w*h)
	at := func(i int) {
		x, y := b.Min.X+i%w, b.Min.Y+i/w
		r, g, bb, a := bc.At(x, y).RGBA()
		px[i] = [4]uint32{r, g, bb, a}
	}
	switch order {
	case 0:
		readCS()
		md = bc.Metadata()
		for i := w*h - 1; i >= 0; i-- {
			at(i)
		}
		content = bc.Content()
		readScheme()
	case 1:
		readScheme()
		content = bc.Content()
		readCS()
		for x := 0; x < w; x++ {
			for y := 0; y < h; y++ {
				at(y*w + x)
			}
		}
		md = bc.Metadata()
	default:
		md = bc.Metadata()
		perm := rnd.Perm(w * h)
		for k, i := range perm {
			at(i)
			if k == len(perm)/2 {
				readCS()
				content = bc.Content()
			}
		}
		for k := len(perm) - 1; k >= 0; k-- {
			at(perm[k])
		}
		readScheme()
	}
	h2 := sha256.New()
	fmt.Fprintf(h2, "%v|", bc.Bounds())
	var buf [16]byte
	for _, p := range px {
		binary.LittleEndian.PutUint32(buf[0:], p[0])
		binary.LittleEndian.PutUint32(buf[4:], p[1])
		binary.LittleEndian.PutUint32(buf[8:], p[2])
		binary.LittleEndian.PutUint32(buf[12:], p[3])
		h2.Write(buf[:])
	}
	fmt.Fprintf(h2, "|%q|%v", content, md)
	if hasCS {
		fmt.Fprintf(h2, "|cs=%d", cs)
	}
	if hasScheme {
		fmt.Fprintf(h2, "|%#v|%#v", scheme.Background, scheme.Foreground)
	}
	return hex.EncodeToString(h2.Sum(nil))[:32]
}

// outcome of one guarded library call.
type outcome struct {
	bc    barcode.Barcode
	err   error
	panic any
	stack string
}

// guard runs an encoder call, recovering panics of the calling goroutine.
func guard(f func() (barcode.Barcode, error)) (o outcome) {
	o.panic, o.stack = fw.Call(func() { o.bc, o.err = f() })
	return
}

// wellFormed checks the (barcode, error) contract and reports panics; it returns
// true when a usable barcode was returned.
func wellFormed(c *fw.Ctx, fn string, inner string, o *outcome) bool {
	if o.panic != nil {
		c.Violation("panic:"+fn, fmt.Sprintf("panic: %v", o.panic), inner, o.stack)
		return false
	}
	bcNil := o.bc == nil || isNilIface(o.bc)
	if o.err != nil && o.bc != nil && bcNil {
		// a nil pointer wrapped in the Barcode interface: `bc != nil` is true for the caller
		c.Violation("typed-nil-with-error:"+fn, fmt.Sprintf("returned an error together with a non-nil Barcode interface holding a nil %T", o.bc), inner, "")
		return false
	}
	if bcNil && o.err == nil {
		c.Violation("nil-nil:"+fn, "returned (nil, nil)", inner, "")
		return false
	}
	if !bcNil && o.err != nil {
		c.Violation("both:"+fn, "returned a barcode and an error: "+o.err.Error(), inner, "")
		return false
	}
	return !bcNil
}

func pick[T any](r *rand.Rand, xs []T) T { return xs[r.Intn(len(xs))] }

func randBytes(r *rand.Rand, n int, alphabet []byte) []byte {
	b := make([]byte, n)
	for i := range b {
		b[i] = alphabet[r.Intn(len(alphabet))]
	}
	return b
}

func byteRange(lo, hi int) []byte {
	var b []byte
	for i := lo; i <= hi; i++ {
		b = append(b, byte(i))
	}
	return b
}

var (
	digitsAB  = []byte("0123456789")
	upperAB   = []byte("ABCDEFGHIJKLMNOPQRSTUVWXYZ")
	lowerAB   = []byte("abcdefghijklmnopqrstuvwxyz")
	qrAlnumAB = []byte("0123456789ABCDEFGHIJKLMNOPQRSTUVWXYZ $%*+-./:")
	highAB    = byteRange(128, 255)
	allAB     = byteRange(0, 255)
	asciiAB   = byteRange(0, 127)
	printAB   = byteRange(32, 126)
)

func isNilIface(v any) bool {
	if v == nil {
		return true
	}
	rv := reflectValueOf(v)
	return rv
}

func jsonMarshal(v any) ([]byte, error) { return json.Marshal(v) }

// ---- retention monitor: a returned barcode is a snapshot; later calls must not change it.

type retainedBC struct {
	bc   barcode.Barcode
	sig  uint64
	desc string
}

var retainRing []retainedBC

func pixelSig(bc barcode.Barcode) uint64 {
	h := uint64(1469598103934665603)
	mix := func(v uint32) {
		h ^= uint64(v)
		h *= 1099511628211
	}
	b := bc.Bounds()
	for y := b.Min.Y; y < b.Max.Y; y++ {
		for x := b.Min.X; x < b.Max.X; x++ {
			r, g, bl, a := bc.At(x, y).RGBA()
			mix(r ^ g<<1 ^ bl<<2 ^ a<<3)
		}
	}
	for _, ch := range []byte(bc.Content()) {
		mix(uint32(ch))
	}
	mix(uint32(b.Dx()))
	mix(uint32(b.Dy()))
	return h
}

// retainObserve re-reads the barcodes kept from earlier calls (they must be unchanged)
// and then keeps this one; size is the ring length.
func retainObserve(c *fw.Ctx, fam string, bc barcode.Barcode, desc string, size int) {
	for i := range retainRing {
		old := &retainRing[i]
		var now uint64
		pv, _ := fw.Call(func() { now = pixelSig(old.bc) })
		if pv != nil || now != old.sig {
			c.Violation("retained-result-changed/"+fam, fmt.Sprintf("a barcode returned earlier (%s) changed after the later call %s", old.desc, desc), desc, "")
			old.sig = now
		}
	}
	var sig uint64
	if pv, _ := fw.Call(func() { sig = pixelSig(bc) }); pv != nil {
		return
	}
	if len(retainRing) >= size {
		copy(retainRing, retainRing[1:])
		retainRing = retainRing[:len(retainRing)-1]
	}
	retainRing = append(retainRing, retainedBC{bc, sig, desc})
}

// ---- rejection interleaving: an error path must not leave state behind.  Every
// decoding check calls poison() regularly between accepted calls: requests that are
// refused only after a valid prefix has been processed.

var poisonCount int

func poison(fam string, full bool) {
	poisonCount++
	var reqs []Req
	switch fam {
	case "code39":
		reqs = []Req{{Fam: fam, S: []byte("ab\u00e9"), I: []int64{1, 1}, Scheme: -1}, {Fam: fam, S: []byte("AB*"), I: []int64{0, 0}, Scheme: -1}, {Fam: fam, S: []byte("XYa"), I: []int64{1, 0}, Scheme: -1}, {Fam: fam, S: []byte("$%\u0141"), I: []int64{0, 1}, Scheme: -1}}
	case "code93":
		reqs = []Req{{Fam: fam, S: []byte("caf\u00e9"), I: []int64{1, 1}, Scheme: -1}, {Fam: fam, S: []byte("AB*"), I: []int64{0, 0}, Scheme: -1}, {Fam: fam, S: []byte("XYa"), I: []int64{1, 0}, Scheme: -1}, {Fam: fam, S: []byte("+/\u20ac"), I: []int64{0, 1}, Scheme: -1}}
	case "code128", "code128nocs":
		reqs = []Req{{Fam: fam, S: []byte("1234ab\u00e9"), Scheme: -1}, {Fam: fam, S: []byte("\x01A\u0100"), Scheme: -1}}
	case "ean":
		reqs = []Req{{Fam: fam, S: []byte("123456x"), Scheme: -1}, {Fam: fam, S: []byte("12345678901x"), Scheme: -1}, {Fam: fam, S: []byte("12345671"), Scheme: -1}}
	case "2of5":
		reqs = []Req{{Fam: fam, S: []byte("471x"), I: []int64{1}, Scheme: -1}, {Fam: fam, S: []byte("47x1"), I: []int64{1}, Scheme: -1}, {Fam: fam, S: []byte("12x"), I: []int64{0}, Scheme: -1}, {Fam: fam, S: []byte("123"), I: []int64{1}, Scheme: -1}}
	case "codabar":
		reqs = []Req{{Fam: fam, S: []byte("A12x3B"), Scheme: -1}, {Fam: fam, S: []byte("A123"), Scheme: -1}}
	case "qr":
		reqs = []Req{{Fam: fam, S: []byte("HELLO WORLd"), I: []int64{1, 2}, Scheme: -1}, {Fam: fam, S: []byte("12345x"), I: []int64{2, 1}, Scheme: -1}, {Fam: fam, S: []byte("AB\u0141"), I: []int64{0, 2}, Scheme: -1}}
	case "pdf417":
		reqs = []Req{{Fam: fam, S: []byte("abc;;\x80"), I: []int64{9}, Scheme: -1}}
	case "aztec":
		reqs = []Req{{Fam: fam, S: []byte("a1!\x80,. "), I: []int64{33, 33}, Scheme: -1}, {Fam: fam, S: bytes.Repeat([]byte("x.y, "), 30), I: []int64{33, -1}, Scheme: -1}}
	case "datamatrix":
		reqs = []Req{{Fam: fam, S: bytes.Repeat([]byte{0xff}, 800), Scheme: -1}}
	}
	if len(reqs) > 0 {
		reqs[poisonCount%len(reqs)].call()
	}
}

// decorate returns variants of a content with prefixes/suffixes that "helpful" input
// normalisation tends to strip or unwrap: byte order marks, line ends, blanks, NULs,
// quotes, the symbology's own delimiters, invisible Unicode characters.
func decorate(x []byte) [][]byte {
	cat := func(parts ...string) []byte {
		var b []byte
		for _, p := range parts {
			b = append(b, p...)
		}
		return b
	}
	s := string(x)
	return [][]byte{
		cat("\ufeff", s), cat(s, "\ufeff"), cat("\ufeff\ufeff", s), cat("\xef\xbb", s), cat("\xff\xfe", s), cat("\xfe\xff", s),
		cat(s, "\n"), cat(s, "\r\n"), cat(s, "\r"), cat("\n", s), cat(s, "\n\n"), cat(s, "\r\n\r\n\r"),
		cat(" ", s), cat(s, " "), cat("  ", s, "  "), cat("\t", s), cat(s, "\t"),
		cat("*", s, "*"), cat("\"", s, "\""), cat("'", s, "'"), cat("(", s, ")"), cat("[", s, "]"), cat("<", s, ">"),
		cat("\x00", s), cat(s, "\x00"), cat(s, "\x1a"), cat(s, "\x7f"),
		cat("\u200b", s), cat(s, "\u200b"), cat("\u00a0", s), cat(s, "\u00a0"), cat("\u2028", s), cat("\u200e", s), cat(s, "\u0301"),
		cat("+", s), cat("-", s), cat("0", s), cat(s, "0"), cat("00", s),
		// placeholder runes and escape conventions of other encoders / APIs: ordinary
		// data wherever the symbology has no such function
		cat("\u00f1", s), cat("\u00f2", s), cat("\u00f3", s), cat("\u00f4", s), cat(s, "\u00f1"), cat("\u00f1\u00f1", s), cat("\u00e8", s), cat("\u00e9", s), cat("\u00ea", s),
		cat("\x1d", s), cat("\x1e", s), cat("\xe8", s), cat("\xf1", s), cat("\xc3\xb1", s, "\xc3"), cat("]d2", s), cat("]Q3", s), cat("]z0", s), cat("]L0", s), cat("\\", s), cat("^", s), cat("~", s), cat("%", s), cat("#", s), cat("{GS}", s),
	}
}

// foreignDigitStrings: decimal digits of other scripts (unicode.IsDigit is true for
// them, they are not ASCII digits), alone and mixed with ASCII digits, in runs of the
// lengths at which digit look-aheads switch (1, 2, 4, 13, 14).
func foreignDigitStrings() []string {
	var out []string
	for _, zero := range []rune{0x0660, 0x06F0, 0x0966, 0xFF10, 0x1D7CE} {
		mk := func(n int) string {
			rs := make([]rune, n)
			for i := range rs {
				rs[i] = zero + rune((i*7+1)%10)
			}
			return string(rs)
		}
		for _, n := range []int{1, 2, 4, 6, 13, 14} {
			f := mk(n)
			out = append(out, f, "12"+f, f+"34", "1234"+f+"56", "AB"+f, "HELLO"+f, f[:len(f)/n]+"234567890123")
		}
	}
	out = append(out, "МОСКВА", "ÄÖÜ", "ÀÉÎ 123", "ΑΒΓ", "ＡＢＣ")
	return out
}

// ---- retained errors: an error returned earlier must keep its text.
type retainedErr struct {
	err  error
	text string
	desc string
}

var errRing []retainedErr

func retainErr(c *fw.Ctx, fam string, err error, desc string) {
	if err == nil {
		return
	}
	for i := range errRing {
		old := &errRing[i]
		var now string
		pv, _ := fw.Call(func() { now = old.err.Error() })
		if pv != nil || now != old.text {
			c.Violation("retained-error-changed/"+fam, fmt.Sprintf("the error returned for %s read %q and reads %q after the later rejected call %s", old.desc, old.text, now, desc), desc, "")
			old.text = now
		}
	}
	var text string
	if pv, _ := fw.Call(func() { text = err.Error() }); pv != nil {
		return
	}
	if len(errRing) >= 4 {
		copy(errRing, errRing[1:])
		errRing = errRing[:3]
	}
	errRing = append(errRing, retainedErr{err, text, desc})
}

// structuredPayloads: ISO 15434 envelopes (the DataMatrix macros), GS1 element strings,
// symbology identifiers, ECI-like escapes, URLs and other formats that an encoder
// might compact or interpret; every byte must come back.
func structuredPayloads() [][]byte {
	var out [][]byte
	for _, s := range []string{
		"[)>\x1e05\x1d0112345678901231\x1e\x04", "[)>\x1e06\x1d1P4711\x1dQ10\x1e\x04", "[)>\x1e05\x1d\x1e\x04", "[)>\x1e06\x1dX", "[)>\x1e07\x1dABC\x1e\x04", "x[)>\x1e05\x1dA\x1e\x04",
		"[)>\x1e05\x1dDATA\x1e\x04tail", "\x1d0112345678901231", "]d201123456789012311712310010ABC", "]C1(01)12345678901231", "(01)09501101020917(17)261231(10)ABC123",
		"\\000026hello", "\\000009", "\\\\", "\\F", "^FNC1", "http://example.org/?a=1&b=2", "HTTPS://EXAMPLE.ORG/ABC", "mailto:a@b.c", "BEGIN:VCARD\r\nN:Doe;John\r\nEND:VCARD", "WIFI:T:WPA;S:net;P:pass;;",
		"\x02data\x03", "\x1bE", "\x1c\x1d\x1e\x1f", "\xe9\x1d\xe9", "{\"json\":true}", "<xml/>",
	} {
		out = append(out, []byte(s))
	}
	return out
}

// verifyDecoded reads an accepted plain (black on white) barcode with the reference
// reader of its family and compares the result with the request; "" means it agrees.
// It needs no Ctx, so goroutines of the concurrency workloads can call it inline.
func verifyDecoded(req Req, bc barcode.Barcode) (msg string) {
	defer func() {
		if pv := recover(); pv != nil {
			msg = fmt.Sprintf("accessor panics: %v", pv)
		}
	}()
	s := string(req.S)
	switch req.Fam {
	case "qr", "datamatrix", "aztec", "pdf417":
		got, err := decodedPayload(req, bc)
		if err != nil {
			return "symbol does not decode: " + err.Error()
		}
		if string(got) != s {
			return fmt.Sprintf("symbol decodes to %s", short(string(got)))
		}
		if bc.Content() != s {
			return fmt.Sprintf("Content() = %s", short(bc.Content()))
		}
		return ""
	}
	bits, err := row1D(bc)
	if err != nil {
		return err.Error()
	}
	var decoded string
	want := s
	switch req.Fam {
	case "ean":
		want = eanExpect(s)
		decoded, err = refdec.DecodeEAN(bits)
		if err == nil {
			if cs, ok := bc.(barcode.BarcodeIntCS); !ok || cs.CheckSum() != int(want[len(want)-1]-'0') {
				return "CheckSum() is not the check digit"
			}
			if bc.Content() != want {
				return fmt.Sprintf("Content() = %q, want %q", bc.Content(), want)
			}
		}
	case "code128", "code128nocs":
		var res *refdec.Code128Result
		res, err = refdec.DecodeCode128(bits, req.Fam == "code128")
		if err == nil {
			decoded = res.Text
			if res.Check >= 0 && res.Check != res.Expected {
				return fmt.Sprintf("check character %d, want %d", res.Check, res.Expected)
			}
		}
	case "code39":
		var res *refdec.Code39Result
		res, err = refdec.DecodeCode39(bits, req.int(0) != 0)
		if err == nil {
			decoded = res.Data
			if res.Check >= 0 && res.Check != res.Expected {
				return fmt.Sprintf("check character %d, want %d", res.Check, res.Expected)
			}
			if req.int(1) != 0 {
				decoded, err = refdec.Code39FullASCII(res.Data)
			}
		}
	case "code93":
		var res *refdec.Code93Result
		res, err = refdec.DecodeCode93(bits, req.int(0) != 0)
		if err == nil {
			if res.C >= 0 && (res.C != res.ExpC || res.K != res.ExpK) {
				return fmt.Sprintf("check characters %d,%d, want %d,%d", res.C, res.K, res.ExpC, res.ExpK)
			}
			if req.int(1) != 0 {
				decoded, err = refdec.Code93FullASCII(res.Values)
			} else {
				decoded = refdec.Code93Text(res.Values)
			}
		}
	case "codabar":
		decoded, err = refdec.DecodeCodabar(bits)
	case "2of5":
		decoded, err = refdec.DecodeTwoOfFive(bits, req.int(0) != 0)
	}
	if err != nil {
		return "symbol does not decode: " + err.Error()
	}
	if decoded != want {
		return fmt.Sprintf("symbol decodes to %s, want %s", short(decoded), short(want))
	}
	return ""
}
