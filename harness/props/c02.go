package props

import (
	"bytes"
	"fmt"
	"math/rand"

	"verifharness/fw"
	"verifharness/refdec"
)

// C02 — DataMatrix: every accepted content decodes back to exactly that content.
type c02 struct{}

func init() { fw.Register(c02{}) }

func (c02) ID() string { return "C02" }
func (c02) Rule() string {
	return "contents of forced ASCII-encodation length per class (letters, digit pairs, bytes >= 0x80 costing two codewords, odd digit runs, mixtures): quick = codeword counts cap-1/cap/cap+1 around each of the 24 capacities plus seed-chosen counts and random byte strings; thorough = every codeword count 0..1560 in every class; each accepted symbol is read by an independent ISO 16022 reader (finder/clock tracks of every region, Annex F placement incl. corner cases and fixed pattern, block de-interleave, all RS syndromes, ASCII decode incl. upper shift and 253-state pads) and must yield the content bytes; non-trivial = accepted and fully decoded, distinct by content"
}
func (c02) Assumptions() []string {
	return []string{
		"24-row size table and Annex F placement written from ISO/IEC 16022 in refdec/datamatrix.go",
		"144x144: the check-codeword interleave is accepted in both conventions in use (plain round-robin, or continuing the data round-robin); the property only requires every interleaved block to be a valid codeword",
	}
}

// dmContent builds content whose ASCII encodation has exactly n codewords.
func dmContent(r *rand.Rand, class int, n int) []byte {
	var b []byte
	switch class {
	case 0: // letters and punctuation, no two adjacent digits
		for i := 0; i < n; i++ {
			b = append(b, pick(r, upperAB))
		}
	case 1: // digit pairs
		b = randBytes(r, 2*n, digitsAB)
	case 2: // high bytes (two codewords each) + one letter if n is odd
		for i := 0; i < n/2; i++ {
			b = append(b, byte(128+r.Intn(128)))
		}
		if n%2 == 1 {
			b = append(b, pick(r, lowerAB))
		}
	case 3: // odd digit runs separated by letters: "123a" = pair + digit + letter = 3 codewords
		for len(b) < 0 || n > 0 {
			switch {
			case n >= 3:
				b = append(b, randBytes(r, 3, digitsAB)...)
				b = append(b, pick(r, lowerAB))
				n -= 3
			default:
				b = append(b, pick(r, upperAB))
				n--
			}
		}
	default: // mixture
		for n > 0 {
			switch k := r.Intn(4); {
			case k == 0 && n >= 2:
				b = append(b, byte(128+r.Intn(128)))
				n -= 2
			case k == 1:
				if len(b) > 0 && b[len(b)-1] >= '0' && b[len(b)-1] <= '9' {
					b = append(b, ' ')
					n--
				} else {
					b = append(b, randBytes(r, 2, digitsAB)...)
					n--
				}
			default:
				c := byte(r.Intn(128))
				if c >= '0' && c <= '9' {
					c = 'x'
				}
				b = append(b, c)
				n--
			}
		}
	}
	return b
}

func (c02) Gen(tier string, seed int64) []fw.Unit {
	r := rngFor(seed, "C02")
	var us []fw.Unit
	add := func(tag string, s []byte) {
		us = append(us, Req{Fam: "datamatrix", S: s, Scheme: -1}.Unit("dm", tag))
	}
	if tier == "thorough" {
		for n := 0; n <= 1560; n++ {
			for cl := 0; cl < 5; cl++ {
				add(fmt.Sprintf("class%d", cl), dmContent(r, cl, n))
			}
		}
	} else {
		for _, c := range refdec.DMCapacities() {
			for _, n := range []int{c[1] - 1, c[1], c[1] + 1} {
				for cl := 0; cl < 5; cl++ {
					add(fmt.Sprintf("boundary-class%d", cl), dmContent(r, cl, n))
				}
			}
		}
		for i := 0; i < 600; i++ {
			add("count-random", dmContent(r, r.Intn(5), r.Intn(1561)))
		}
	}
	nr := 1500
	if tier == "thorough" {
		nr = 10000
	}
	for i := 0; i < nr; i++ {
		n := r.Intn(60)
		if r.Intn(8) == 0 {
			n = r.Intn(1200)
		}
		add("random-bytes", randBytes(r, n, pick(r, [][]byte{allAB, printAB, digitsAB, highAB, asciiAB})))
	}
	us = append(us, collideUnits(r, "dm", "datamatrix", printAB, 24)...)
	us = append(us, collideUnits(r, "dm", "datamatrix", allAB, 40)...)
	for _, base := range []string{"hello", "12345678", "A1"} {
		for _, d := range decorate([]byte(base)) {
			add("decorated", d)
		}
	}
	{
		// value-directed: 10x10 symbols (3 data, 5 check codewords) whose check codewords
		// begin with zero bytes
		rr := rngFor(seed, "C02rszero")
		found := [3]int{}
		for tries := 0; tries < 2000000 && (found[1] < 10 || found[2] < 4); tries++ {
			ct := randBytes(rr, 3, printAB)
			if refdec.DMAsciiCodewords(ct) != 3 {
				continue
			}
			data := []int{int(ct[0]) + 1, int(ct[1]) + 1, int(ct[2]) + 1}
			rem := refdec.GF256D.RSCheck(data, 1, 5)
			z := 0
			for z < 2 && rem[z] == 0 {
				z++
			}
			if z >= 1 && found[z] < 10 {
				found[z]++
				add(fmt.Sprintf("rs-check-leading-zeros-%d", z), ct)
			}
		}
	}
	for _, fd := range foreignDigitStrings() {
		add("foreign-digits", []byte(fd))
	}
	for _, sp := range structuredPayloads() {
		add("structured", sp)
	}
	for _, s := range []string{"", "0", "00", "000", "0a0", "\x00", "\x7f", "\x80", "\xff", "\xff\xff", "9\xff9", "\xc3\x28", "é", "12\x8034", "\x8012", "1\x802"} {
		add("special", []byte(s))
	}
	return us
}

func dmObserve(c *fw.Ctx, req Req) (*refdec.DMResult, bool) {
	inner := req.String()
	c.Step(func() string { return inner })
	if c.Res().Evals%7 == 0 {
		poison("datamatrix", false)
	}
	o := req.call()
	if !wellFormed(c, req.entryName(), inner, &o) {
		if o.err != nil {
			c.Cover("outcome", "rejected")
		}
		return nil, false
	}
	c.Cover("outcome", "accepted")
	retainObserve(c, "datamatrix", o.bc, inner, 3)
	g, err := grid2D(o.bc)
	if err != nil {
		c.Violation("dm/image", err.Error(), inner, "")
		return nil, false
	}
	res, err := refdec.DecodeDataMatrix(g)
	if err != nil {
		c.Violation("dm/"+refdec.RuleOf(err), err.Error(), inner, "")
		return nil, false
	}
	return res, true
}

func (p c02) Exec(c *fw.Ctx, u *fw.Unit) {
	if isCollide(u) {
		for _, q := range splitCollide(u) {
			p.one(c, q, u.Tag)
		}
		return
	}
	p.one(c, reqOfUnit(u), u.Tag)
}

func (p c02) one(c *fw.Ctx, req Req, tag string) {
	c.Eval()
	res, ok := dmObserve(c, req)
	if !ok {
		return
	}
	if !bytes.Equal(res.Payload, req.S) {
		c.Violation("dm/roundtrip", fmt.Sprintf("%dx%d symbol decodes to %s", res.Size, res.Size, short(string(res.Payload))), req.String(), "")
		return
	}
	c.Nontrivial(req.Key())
	c.CoverN("size", res.Size)
	c.CoverN("regions_per_side", res.Regions)
	c.CoverN("rs_blocks", res.Blocks)
	c.Cover("interleave", res.Interleave)
	for k := range res.Corners {
		c.Cover("placement_special", k)
	}
	switch {
	case res.Pads == 0:
		c.Cover("pads", "0")
	case res.Pads == 1:
		c.Cover("pads", "1")
	default:
		c.Cover("pads", ">1")
	}
	if res.UpperShift > 0 {
		c.Cover("feature", "upper-shift")
	}
	if res.DigitPairs > 0 {
		c.Cover("feature", "digit-pair")
	}
	c.Cover("tag", tag)
	if c.Rand().Intn(60) == 0 {
		c.Sample(map[string]any{"content": short(string(req.S)), "len": len(req.S), "size": res.Size, "data_codewords": len(res.DataCW), "pads": res.Pads})
	}
}
