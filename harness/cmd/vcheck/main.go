// vcheck: parent and worker of the runtime-monitoring checks.
//
//	vcheck run    -prop C01 -tier quick|thorough [-seed N]
//	vcheck worker -prop C01 -tier … -seed N -shard i -nshards n -dir D [-only idx] [-fine] [-skip a,b]
//	vcheck replay <replay.json>
//	vcheck aux    <name> args…            (property specific helper processes: one-shot encodes, race workloads)
package main

import (
	"encoding/json"
	"flag"
	"fmt"
	"os"
	"path/filepath"
	"runtime"
	"strconv"
	"strings"
	"time"

	"verifharness/fw"
	"verifharness/props"
)

func main() {
	if len(os.Args) < 2 {
		fmt.Fprintln(os.Stderr, "usage: vcheck run|worker|replay|aux …")
		os.Exit(2)
	}
	switch os.Args[1] {
	case "run":
		os.Exit(run(os.Args[2:]))
	case "worker":
		os.Exit(worker(os.Args[2:]))
	case "replay":
		os.Exit(replay(os.Args[2:]))
	case "aux":
		os.Exit(props.Aux(os.Args[2:]))
	case "list":
		for _, id := range fw.IDs() {
			fmt.Println(id)
		}
	default:
		fmt.Fprintln(os.Stderr, "unknown command")
		os.Exit(2)
	}
}

func verifDir() string {
	if d := os.Getenv("VERIF_DIR"); d != "" {
		return d
	}
	return "/verif"
}

func newParent(p fw.Property, tier string, seed int64) *fw.Parent {
	self, _ := os.Executable()
	vd := verifDir()
	wd := os.Getenv("VERIF_WORK")
	if wd == "" {
		wd = filepath.Join(vd, ".work", fmt.Sprintf("%s-%s-%d", p.ID(), tier, os.Getpid()))
	}
	os.MkdirAll(wd, 0o755)
	nw := runtime.NumCPU()
	if s := os.Getenv("VERIF_WORKERS"); s != "" {
		if v, err := strconv.Atoi(s); err == nil && v > 0 {
			nw = v
		}
	}
	if nw > 16 {
		nw = 16
	}
	return &fw.Parent{Prop: p, Tier: tier, Seed: seed, Self: self, RaceBin: os.Getenv("VCHECK_RACE_BIN"),
		VerifDir: vd, WorkDir: wd, Workers: nw, HangCPU: map[string]float64{"quick": 60, "thorough": 120}[tier], Start: time.Now(), ExtraCov: map[string]any{}, MaxRSSMiB: 6144}
}

func run(args []string) int {
	fs := flag.NewFlagSet("run", flag.ExitOnError)
	prop := fs.String("prop", "", "property id")
	tier := fs.String("tier", "quick", "quick|thorough")
	seed := fs.Int64("seed", 0, "seed (default $VERIF_SEED or 1)")
	keep := fs.Bool("keep", false, "keep work dir")
	fs.Parse(args)
	if *seed == 0 {
		*seed = 1
		if s := os.Getenv("VERIF_SEED"); s != "" {
			if v, err := strconv.ParseInt(s, 10, 64); err == nil {
				*seed = v
			}
		}
	}
	if t := os.Getenv("VERIF_TIER"); t != "" && *tier == "" {
		*tier = t
	}
	p := fw.Get(*prop)
	if p == nil {
		fmt.Fprintf(os.Stderr, "unknown property %q\n", *prop)
		return 2
	}
	par := newParent(p, *tier, *seed)
	var merged *fw.Result
	if cr, ok := p.(fw.CustomRunner); ok {
		merged = cr.Run(par)
	} else {
		merged = par.RunWorkers()
	}
	code := par.Conclude(merged)
	if !*keep && os.Getenv("VERIF_KEEP") == "" {
		os.RemoveAll(par.WorkDir)
	}
	return code
}

func worker(args []string) int {
	fs := flag.NewFlagSet("worker", flag.ExitOnError)
	prop := fs.String("prop", "", "")
	tier := fs.String("tier", "quick", "")
	seed := fs.Int64("seed", 1, "")
	shard := fs.Int("shard", 0, "")
	nshards := fs.Int("nshards", 1, "")
	dir := fs.String("dir", ".", "")
	only := fs.Int("only", -1, "")
	fine := fs.Bool("fine", false, "")
	skip := fs.String("skip", "", "")
	fs.Parse(args)
	p := fw.Get(*prop)
	if p == nil {
		return 2
	}
	skipSet := map[int]bool{}
	for _, s := range strings.Split(*skip, ",") {
		if v, err := strconv.Atoi(s); err == nil {
			skipSet[v] = true
		}
	}
	ctx, err := fw.NewCtx(*prop, *tier, *seed, *shard, filepath.Join(*dir, "wal"))
	if err != nil {
		fmt.Fprintln(os.Stderr, err)
		return 2
	}
	ctx.Fine = *fine
	props.PreferWithColor = *shard%2 == 1
	units := p.Gen(*tier, *seed)
	for idx := range units {
		u := &units[idx]
		if *only >= 0 {
			if idx != *only {
				continue
			}
		} else {
			if int(u.Hash()%uint64(*nshards)) != *shard || skipSet[idx] {
				continue
			}
		}
		ctx.Begin(idx, u)
		p.Exec(ctx, u)
		ctx.Done(idx)
	}
	// nothing started by the library may still be alive once all calls have returned
	leaked, spinning := fw.LeakVerdict()
	if len(leaked) > 0 {
		ctx.Violation("goroutine-leak", fmt.Sprintf("%d library goroutine(s) blocked forever after all calls returned", len(leaked)), "", leaked[0])
	}
	if len(spinning) > 0 {
		ctx.Inconclusive(fmt.Sprintf("%d library goroutine(s) neither ended nor blocked", len(spinning)))
	}
	if err := ctx.Finish(filepath.Join(*dir, "result.json")); err != nil {
		fmt.Fprintln(os.Stderr, err)
		return 2
	}
	return 0
}

func replay(args []string) int {
	if len(args) < 1 {
		fmt.Fprintln(os.Stderr, "usage: vcheck replay <path>")
		return 2
	}
	b, err := os.ReadFile(args[0])
	if err != nil {
		fmt.Fprintln(os.Stderr, err)
		return 2
	}
	var rp struct {
		Property  string       `json:"property"`
		Tier      string       `json:"tier"`
		Seed      int64        `json:"seed"`
		Violation fw.Violation `json:"violation"`
	}
	if err := json.Unmarshal(b, &rp); err != nil {
		fmt.Fprintln(os.Stderr, err)
		return 2
	}
	p := fw.Get(rp.Property)
	if p == nil {
		return 2
	}
	if r, ok := p.(fw.Replayer); ok {
		return r.Replay(newParent(p, rp.Tier, rp.Seed), &rp.Violation)
	}
	ctx, _ := fw.NewCtx(rp.Property, rp.Tier, rp.Seed, 0, "")
	ctx.Begin(0, &rp.Violation.Unit)
	p.Exec(ctx, &rp.Violation.Unit)
	res := ctx.Res()
	for _, v := range res.Violations {
		fmt.Printf("REPRODUCED key=%s msg=%s inner=%s\n", v.Key, v.Msg, v.Inner)
	}
	if len(res.Violations) == 0 {
		fmt.Println("NOT-REPRODUCED: the unit ran clean")
		return 0
	}
	return 1
}
