package refdec

import "sync"

var (
	genMu    sync.Mutex
	genCache = map[[4]int][]int{}
)

// Reference Galois-field arithmetic: carry-less (shift-and-xor) multiplication modulo
// the primitive polynomial, no tables.  α = 2.

type Field struct {
	Poly int // primitive polynomial including the top bit
	Size int // 2^m
}

var (
	GF16   = Field{0x13, 16}
	GF64   = Field{0x43, 64}
	GF256Q = Field{285, 256} // QR
	GF256D = Field{301, 256} // DataMatrix, Aztec 8-bit (0x12D)
	GF1024 = Field{0x409, 1024}
	GF4096 = Field{0x1069, 4096}
)

func (f Field) Mul(a, b int) int {
	r := 0
	for b > 0 {
		if b&1 == 1 {
			r ^= a
		}
		b >>= 1
		a <<= 1
		if a&f.Size != 0 {
			a ^= f.Poly
		}
	}
	return r
}

func (f Field) Pow(a, n int) int {
	r := 1
	for n > 0 {
		if n&1 == 1 {
			r = f.Mul(r, a)
		}
		a = f.Mul(a, a)
		n >>= 1
	}
	return r
}

func (f Field) Inv(a int) int { return f.Pow(a, f.Size-2) }

// Eval evaluates a polynomial given highest-degree coefficient first.
func (f Field) Eval(c []int, x int) int {
	r := 0
	for _, v := range c {
		r = f.Mul(r, x) ^ v
	}
	return r
}

// SyndromesZero reports whether the codeword (highest first) evaluates to zero at
// α^base … α^(base+k-1); it returns the first failing exponent otherwise.
func (f Field) SyndromesZero(cw []int, base, k int) (bool, int) {
	for i := 0; i < k; i++ {
		x := f.Pow(2, (base+i)%(f.Size-1))
		if f.Eval(cw, x) != 0 {
			return false, base + i
		}
	}
	return true, 0
}

// polynomial helpers (highest first, normalised: no leading zeros except "0")

func PolyNorm(c []int) []int {
	for len(c) > 1 && c[0] == 0 {
		c = c[1:]
	}
	if len(c) == 0 {
		return []int{0}
	}
	return c
}

func (f Field) PolyAdd(a, b []int) []int {
	if len(a) < len(b) {
		a, b = b, a
	}
	out := append([]int{}, a...)
	d := len(a) - len(b)
	for i, v := range b {
		out[d+i] ^= v
	}
	return PolyNorm(out)
}

func (f Field) PolyMul(a, b []int) []int {
	out := make([]int, len(a)+len(b)-1)
	for i, x := range a {
		for j, y := range b {
			out[i+j] ^= f.Mul(x, y)
		}
	}
	return PolyNorm(out)
}

func PolyEq(a, b []int) bool {
	a, b = PolyNorm(a), PolyNorm(b)
	if len(a) != len(b) {
		return false
	}
	for i := range a {
		if a[i] != b[i] {
			return false
		}
	}
	return true
}

func PolyIsZero(a []int) bool { a = PolyNorm(a); return len(a) == 1 && a[0] == 0 }

// GF(929) for PDF417 (prime field, generator 3).

func P929Pow(a, n int) int {
	r := 1
	a %= 929
	for n > 0 {
		if n&1 == 1 {
			r = r * a % 929
		}
		a = a * a % 929
		n >>= 1
	}
	return r
}

func P929Eval(c []int, x int) int {
	r := 0
	for _, v := range c {
		r = (r*x + v) % 929
	}
	return r
}

// RSCheck computes the k Reed–Solomon check symbols of data (highest first) for the
// generator with roots alpha^base … alpha^(base+k-1): the remainder of data·x^k
// modulo the generator, by synthetic division with reference arithmetic.
func (f Field) RSCheck(data []int, base, k int) []int {
	key := [4]int{f.Poly, f.Size, base, k}
	genMu.Lock()
	gen := genCache[key]
	if gen == nil {
		gen = []int{1}
		for i := 0; i < k; i++ {
			gen = f.PolyMul(gen, []int{1, f.Pow(2, (base+i)%(f.Size-1))})
		}
		genCache[key] = gen
	}
	genMu.Unlock()
	rem := make([]int, k)
	for _, d := range data {
		fb := d ^ rem[0]
		copy(rem, rem[1:])
		rem[k-1] = 0
		if fb != 0 {
			for j := 0; j < k; j++ {
				rem[j] ^= f.Mul(gen[j+1], fb)
			}
		}
	}
	return rem
}

// QRByteV1L returns the 19 data codewords of a version 1-L byte-mode symbol for a
// content of at most 17 bytes (mode 0100, 8-bit count, data, terminator, pads).
func QRByteV1L(content []byte) []int {
	var bits []bool
	add := func(v, n int) {
		for i := n - 1; i >= 0; i-- {
			bits = append(bits, v>>uint(i)&1 == 1)
		}
	}
	add(4, 4)
	add(len(content), 8)
	for _, c := range content {
		add(int(c), 8)
	}
	for i := 0; i < 4 && len(bits) < 19*8; i++ {
		bits = append(bits, false)
	}
	for len(bits)%8 != 0 {
		bits = append(bits, false)
	}
	pad := 0xEC
	for len(bits) < 19*8 {
		add(pad, 8)
		pad ^= 0xEC ^ 0x11
	}
	out := make([]int, 19)
	for i, b := range bits {
		if b {
			out[i/8] |= 0x80 >> uint(i%8)
		}
	}
	return out
}
