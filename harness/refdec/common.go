// Package refdec holds reference decoders and specification tables that are written
// from the symbology standards, independently of the library under test.  They read
// the module pattern an encoder produced, check every structural rule and recover
// the payload; they accept any valid encoding of a payload and reject what the
// standard rejects.
package refdec

import "fmt"

// Err is a failed structural rule.
type Err struct {
	Rule string // short rule identifier, stable: used in finding keys
	Msg  string
}

func (e *Err) Error() string { return e.Rule + ": " + e.Msg }

func fail(rule, format string, a ...any) *Err {
	return &Err{Rule: rule, Msg: fmt.Sprintf(format, a...)}
}

// RuleOf returns the rule id of an error produced by this package.
func RuleOf(err error) string {
	if e, ok := err.(*Err); ok {
		return e.Rule
	}
	return "error"
}

// Grid is a module matrix; Dark[y*W+x].
type Grid struct {
	W, H int
	Dark []bool
}

func NewGrid(w, h int) *Grid { return &Grid{W: w, H: h, Dark: make([]bool, w*h)} }

func (g *Grid) At(x, y int) bool { return g.Dark[y*g.W+x] }

// runs converts a module row into run lengths; the first run is a bar (dark).
func runs(bits []bool) ([]int, error) {
	if len(bits) == 0 {
		return nil, fail("empty", "no modules")
	}
	if !bits[0] {
		return nil, fail("leading-space", "symbol starts with a space module")
	}
	if !bits[len(bits)-1] {
		return nil, fail("trailing-space", "symbol ends with a space module")
	}
	var r []int
	cur := true
	n := 0
	for _, b := range bits {
		if b == cur {
			n++
		} else {
			r = append(r, n)
			cur = b
			n = 1
		}
	}
	r = append(r, n)
	return r, nil
}

func bitString(bits []bool) string {
	b := make([]byte, len(bits))
	for i, v := range bits {
		if v {
			b[i] = '1'
		} else {
			b[i] = '0'
		}
	}
	return string(b)
}

// BitString renders modules as a 0/1 string (for replay files).
func BitString(bits []bool) string { return bitString(bits) }
