package refdec

import (
	"math/big"
)

// Reference PDF417 (ISO/IEC 15438) reader: start/stop patterns, structural laws and
// cluster of every codeword pattern, left/right row indicators, symbol length
// descriptor, Reed–Solomon over GF(929) (syndromes only), text / byte / numeric
// compaction with all latches, shifts and sub-modes.

var pdfByPattern [3]map[int]int

func init() {
	for c := 0; c < 3; c++ {
		pdfByPattern[c] = make(map[int]int, 929)
		for v, p := range pdfPatterns[c] {
			pdfByPattern[c][p] = v
		}
	}
}

type PDFResult struct {
	Rows, Cols   int
	Level        int
	RowHeight    int
	Codewords    []int // all rows*cols codewords
	NumData      int   // symbol length descriptor
	TrailingPads int
	Payload      []byte
	Features     map[string]int
	Patterns     [][2]int // (cluster index, value) of every pattern observed
}

func barWidths(p, n int) []int {
	var out []int
	cur := (p >> uint(n-1)) & 1
	k := 0
	for i := n - 1; i >= 0; i-- {
		b := (p >> uint(i)) & 1
		if b == cur {
			k++
		} else {
			out = append(out, k)
			cur = b
			k = 1
		}
	}
	return append(out, k)
}

const (
	pdfAlpha = iota
	pdfLower
	pdfMixed
	pdfPunct
)

var pdfMixedChars = []byte("0123456789&\r\t,:#-.$/+%*=^")
var pdfPunctChars = []byte(";<>@[\\]_`~!\r\t,:\n-.$/\"|*()?{}'")

func DecodePDF417(g *Grid) (*PDFResult, error) {
	if (g.W-1)%17 != 0 {
		return nil, fail("pdf-width", "width %d is not 17*(c+4)+1", g.W)
	}
	cols := (g.W-1)/17 - 4
	if cols < 1 || cols > 30 {
		return nil, fail("pdf-width", "width %d gives %d data columns", g.W, cols)
	}
	// group identical pixel lines into symbol rows
	same := func(a, b int) bool {
		for x := 0; x < g.W; x++ {
			if g.At(x, a) != g.At(x, b) {
				return false
			}
		}
		return true
	}
	var rowStart []int
	for y := 0; y < g.H; y++ {
		if y == 0 || !same(y, y-1) {
			rowStart = append(rowStart, y)
		}
	}
	rows := len(rowStart)
	if g.H%rows != 0 {
		return nil, fail("pdf-row-height", "height %d is not a multiple of the %d rows", g.H, rows)
	}
	h := g.H / rows
	for i, s := range rowStart {
		if s != i*h {
			return nil, fail("pdf-row-height", "row %d starts at pixel line %d, expected %d (row height %d)", i, s, i*h, h)
		}
	}
	res := &PDFResult{Rows: rows, Cols: cols, RowHeight: h, Features: map[string]int{}}
	word := func(y, x0, n int) int {
		v := 0
		for i := 0; i < n; i++ {
			v <<= 1
			if g.At(x0+i, y) {
				v |= 1
			}
		}
		return v
	}
	level := -1
	for r := 0; r < rows; r++ {
		y := rowStart[r]
		if w := word(y, 0, 17); w != pdfStartPattern {
			return nil, fail("pdf-start", "row %d does not begin with the start pattern (%017b)", r, w)
		}
		if w := word(y, g.W-18, 18); w != pdfStopPattern {
			return nil, fail("pdf-stop", "row %d does not end with the stop pattern (%018b)", r, w)
		}
		ci := r % 3
		vals := make([]int, cols+2)
		for k := 0; k < cols+2; k++ {
			p := word(y, 17+17*k, 17)
			bw := barWidths(p, 17)
			if p>>16 != 1 || p&1 != 0 || len(bw) != 8 {
				return nil, fail("pdf-pattern-structure", "row %d codeword %d pattern %017b is not 4 bars + 4 spaces starting with a bar", r, k, p)
			}
			for _, w := range bw {
				if w < 1 || w > 6 {
					return nil, fail("pdf-pattern-structure", "row %d codeword %d pattern %017b has an element of %d modules", r, k, p, w)
				}
			}
			cl := ((bw[0]-bw[2]+bw[4]-bw[6])%9 + 9) % 9
			if cl != 3*ci {
				return nil, fail("pdf-cluster", "row %d codeword %d pattern %017b belongs to cluster %d, row needs cluster %d", r, k, p, cl, 3*ci)
			}
			v, ok := pdfByPattern[ci][p]
			if !ok {
				return nil, fail("pdf-pattern-unknown", "row %d codeword %d pattern %017b is not in the table of cluster %d", r, k, p, 3*ci)
			}
			vals[k] = v
			res.Patterns = append(res.Patterns, [2]int{ci, v})
		}
		left, right := vals[0], vals[cols+1]
		if left/30 != r/3 || right/30 != r/3 {
			return nil, fail("pdf-indicator-row", "row %d: indicators %d/%d carry row group %d/%d, want %d", r, left, right, left/30, right/30, r/3)
		}
		lx, rx := left%30, right%30
		var rowsInfo, lvlInfo, colInfo [2]int // from left, right (-1 if not carried)
		rowsInfo, lvlInfo, colInfo = [2]int{-1, -1}, [2]int{-1, -1}, [2]int{-1, -1}
		switch ci {
		case 0:
			rowsInfo[0], colInfo[1] = lx, rx
		case 1:
			lvlInfo[0], rowsInfo[1] = lx, rx
		case 2:
			colInfo[0], lvlInfo[1] = lx, rx
		}
		side := [2]string{"left", "right"}
		for s := 0; s < 2; s++ {
			if rowsInfo[s] >= 0 && rowsInfo[s] != (rows-1)/3 {
				return nil, fail("pdf-indicator-rowcount-"+side[s], "row %d %s indicator encodes (rows-1)/3 = %d, symbol has %d rows (want %d)", r, side[s], rowsInfo[s], rows, (rows-1)/3)
			}
			if colInfo[s] >= 0 && colInfo[s] != cols-1 {
				return nil, fail("pdf-indicator-columns-"+side[s], "row %d %s indicator encodes columns-1 = %d, symbol has %d columns", r, side[s], colInfo[s], cols)
			}
			if lvlInfo[s] >= 0 {
				if lvlInfo[s]%3 != (rows-1)%3 {
					return nil, fail("pdf-indicator-rowcount-"+side[s], "row %d %s indicator encodes (rows-1) mod 3 = %d, symbol has %d rows", r, side[s], lvlInfo[s]%3, rows)
				}
				l := lvlInfo[s] / 3
				if l > 8 {
					return nil, fail("pdf-indicator-level", "row %d %s indicator encodes security level %d", r, side[s], l)
				}
				if level >= 0 && l != level {
					return nil, fail("pdf-indicator-level", "row %d %s indicator encodes security level %d, earlier indicators said %d", r, side[s], l, level)
				}
				level = l
			}
		}
		res.Codewords = append(res.Codewords, vals[1:cols+1]...)
	}
	if level < 0 {
		// fewer than 2 rows cannot happen (min 3 by ISO, 2 in this implementation)
		return nil, fail("pdf-rows", "no row carries the security level (rows=%d)", rows)
	}
	res.Level = level
	k := 2 << uint(level)
	total := rows * cols
	if total > 928 {
		return nil, fail("pdf-total", "%d codewords exceed 928", total)
	}
	n := res.Codewords[0]
	res.NumData = n
	if n+k != total {
		return nil, fail("pdf-length-descriptor", "length descriptor %d + %d check codewords != %d rows x %d columns", n, k, rows, cols)
	}
	for j := 1; j <= k; j++ {
		if P929Eval(res.Codewords, P929Pow(3, j)) != 0 {
			return nil, fail("pdf-rs", "codeword polynomial does not vanish at 3^%d (level %d, %d check codewords)", j, level, k)
		}
	}
	data := res.Codewords[1:n]
	for i := len(data) - 1; i >= 0 && data[i] == 900; i-- {
		res.TrailingPads++
	}
	payload, err := pdfDecodeData(data, res.Features)
	if err != nil {
		return nil, err
	}
	res.Payload = payload
	return res, nil
}

func pdfDecodeData(data []int, feat map[string]int) ([]byte, error) {
	var out []byte
	i := 0
	sub := pdfAlpha
	// text compaction is the initial mode
	textRun := func() error {
		// values of consecutive text codewords, with 913 shifts handled in line
		shift := -1 // pending single shift: pdfAlpha (as) or pdfPunct (ps)
		emit := func(v int) {
			mode := sub
			if shift >= 0 {
				mode = shift
				shift = -1
			}
			switch mode {
			case pdfAlpha:
				switch {
				case v < 26:
					out = append(out, byte('A'+v))
				case v == 26:
					out = append(out, ' ')
				case v == 27:
					sub = pdfLower
					feat["alpha>lower"]++
				case v == 28:
					sub = pdfMixed
					feat["alpha>mixed"]++
				default:
					shift = pdfPunct
					feat["alpha:ps"]++
				}
			case pdfLower:
				switch {
				case v < 26:
					out = append(out, byte('a'+v))
				case v == 26:
					out = append(out, ' ')
				case v == 27:
					shift = pdfAlpha
					feat["lower:as"]++
				case v == 28:
					sub = pdfMixed
					feat["lower>mixed"]++
				default:
					shift = pdfPunct
					feat["lower:ps"]++
				}
			case pdfMixed:
				switch {
				case v < 25:
					out = append(out, pdfMixedChars[v])
				case v == 25:
					sub = pdfPunct
					feat["mixed>punct"]++
				case v == 26:
					out = append(out, ' ')
				case v == 27:
					sub = pdfLower
					feat["mixed>lower"]++
				case v == 28:
					sub = pdfAlpha
					feat["mixed>alpha"]++
				default:
					shift = pdfPunct
					feat["mixed:ps"]++
				}
			case pdfPunct:
				if v < 29 {
					out = append(out, pdfPunctChars[v])
				} else {
					sub = pdfAlpha
					feat["punct>alpha"]++
				}
			}
		}
		for i < len(data) {
			cw := data[i]
			if cw < 900 {
				for _, v := range [2]int{cw / 30, cw % 30} {
					if shift == pdfAlpha {
						// a shifted value is interpreted in the shifted sub-mode, but latch
						// values inside a shift are not defined for 'as'
						if v > 26 {
							return fail("pdf-text-shift", "value %d after an alpha shift", v)
						}
					}
					if shift == pdfPunct && v == 29 {
						// ps followed by value 29 (al in punctuation): not a character
						return fail("pdf-text-shift", "value 29 after a punctuation shift")
					}
					emit(v)
				}
				i++
				continue
			}
			if cw == 913 {
				if i+1 >= len(data) {
					return fail("pdf-913", "shift to byte is the last codeword")
				}
				shift = -1 // a pending ps before 913 is padding
				if data[i+1] > 255 {
					return fail("pdf-913", "shift to byte followed by codeword %d", data[i+1])
				}
				out = append(out, byte(data[i+1]))
				feat["913"]++
				feat["913-in-submode-"+[]string{"alpha", "lower", "mixed", "punct"}[sub]]++
				i += 2
				continue
			}
			break // mode latch: a pending shift is padding
		}
		return nil
	}
	if err := textRun(); err != nil {
		return nil, err
	}
	for i < len(data) {
		cw := data[i]
		i++
		switch cw {
		case 900:
			sub = pdfAlpha
			feat["900"]++
			if err := textRun(); err != nil {
				return nil, err
			}
		case 901, 924:
			feat[map[int]string{901: "901", 924: "924"}[cw]]++
			j := i
			for j < len(data) && data[j] < 900 {
				j++
			}
			run := data[i:j]
			i = j
			p := 0
			for len(run)-p >= 5 && (cw == 924 || len(run)-p > 5) {
				var t int64
				for q := 0; q < 5; q++ {
					t = t*900 + int64(run[p+q])
				}
				if t >= 1<<48 {
					return nil, fail("pdf-byte-group", "five codewords encode %d >= 2^48", t)
				}
				for q := 5; q >= 0; q-- {
					out = append(out, byte(t>>uint(8*q)))
				}
				p += 5
			}
			if cw == 924 && p != len(run) {
				return nil, fail("pdf-924-remainder", "924 (multiple of six bytes) followed by %d codewords", len(run))
			}
			for ; p < len(run); p++ {
				if run[p] > 255 {
					return nil, fail("pdf-byte-single", "single byte codeword %d", run[p])
				}
				out = append(out, byte(run[p]))
			}
		case 902:
			feat["902"]++
			j := i
			for j < len(data) && data[j] < 900 {
				j++
			}
			run := data[i:j]
			i = j
			for p := 0; p < len(run); p += 15 {
				q := p + 15
				if q > len(run) {
					q = len(run)
				}
				t := new(big.Int)
				for _, v := range run[p:q] {
					t.Mul(t, big.NewInt(900))
					t.Add(t, big.NewInt(int64(v)))
				}
				s := t.String()
				if len(s) < 1 || s[0] != '1' {
					return nil, fail("pdf-numeric-group", "numeric group decodes to %s (no leading 1)", s)
				}
				if len(s)-1 > 44 {
					return nil, fail("pdf-numeric-group", "numeric group of %d digits", len(s)-1)
				}
				if q-p == 15 && len(s)-1 != 44 && q < len(run) {
					return nil, fail("pdf-numeric-group", "non-final numeric group of %d digits", len(s)-1)
				}
				out = append(out, s[1:]...)
			}
		case 913:
			return nil, fail("pdf-913", "shift to byte outside text compaction")
		default:
			return nil, fail("pdf-unsupported-codeword", "function codeword %d", cw)
		}
	}
	return out, nil
}

// PDFSimpleCodewords returns the number of data codewords (without the length
// descriptor) of one valid high-level encoding of b: text compaction with sub-mode
// latches only (no shifts, no numeric compaction) and byte compaction for every run of
// bytes outside the text sub-modes.  It is an upper bound on what a sensible encoder
// needs: content that fits with this many codewords is representable.
func PDFSimpleCodewords(b []byte) int {
	const inf = 1 << 60
	var in [4][256]bool // alpha, lower, mixed, punct
	for c := 'A'; c <= 'Z'; c++ {
		in[0][c] = true
	}
	for c := 'a'; c <= 'z'; c++ {
		in[1][c] = true
	}
	in[0][' '], in[1][' '], in[2][' '] = true, true, true
	for _, c := range pdfMixedChars {
		in[2][c] = true
	}
	for _, c := range pdfPunctChars {
		in[3][c] = true
	}
	latch := [4][4]int{{0, 1, 1, 2}, {2, 0, 1, 2}, {1, 1, 0, 1}, {1, 2, 2, 0}}
	isText := func(c byte) bool { return in[0][c] || in[1][c] || in[2][c] || in[3][c] }
	total := 0
	i := 0
	first := true
	for i < len(b) {
		j := i
		if isText(b[i]) {
			for j < len(b) && isText(b[j]) {
				j++
			}
			// text run: values (half codewords) by DP over sub-modes, starting in alpha
			cost := [4]int{0, inf, inf, inf}
			for _, c := range b[i:j] {
				var rel [4]int
				for m := 0; m < 4; m++ {
					rel[m] = inf
					for a := 0; a < 4; a++ {
						if cost[a] < inf && cost[a]+latch[a][m] < rel[m] {
							rel[m] = cost[a] + latch[a][m]
						}
					}
				}
				for m := 0; m < 4; m++ {
					cost[m] = inf
					if in[m][c] && rel[m] < inf {
						cost[m] = rel[m] + 1
					}
				}
			}
			best := inf
			for m := 0; m < 4; m++ {
				if cost[m] < best {
					best = cost[m]
				}
			}
			if !first {
				total++ // 900: back to text compaction
			}
			total += (best + 1) / 2
		} else {
			for j < len(b) && !isText(b[j]) {
				j++
			}
			n := j - i
			total += 1 + 5*(n/6) + n%6 // 901/924 and the packed bytes
		}
		first = false
		i = j
	}
	return total
}
