package refdec

// Reference QR Code (ISO/IEC 18004 model 2) reader: checks every function pattern,
// both copies of format and version information (BCH), all Reed–Solomon blocks
// (syndromes only: nothing is corrected), terminator and pad codewords, and parses
// numeric / alphanumeric / byte segments.

var qrEccPerBlock = [4][41]int{
	{-1, 7, 10, 15, 20, 26, 18, 20, 24, 30, 18, 20, 24, 26, 30, 22, 24, 28, 30, 28, 28, 28, 28, 30, 30, 26, 28, 30, 30, 30, 30, 30, 30, 30, 30, 30, 30, 30, 30, 30, 30},
	{-1, 10, 16, 26, 18, 24, 16, 18, 22, 22, 26, 30, 22, 22, 24, 24, 28, 28, 26, 26, 26, 26, 28, 28, 28, 28, 28, 28, 28, 28, 28, 28, 28, 28, 28, 28, 28, 28, 28, 28, 28},
	{-1, 13, 22, 18, 26, 18, 24, 18, 22, 20, 24, 28, 26, 24, 20, 30, 24, 28, 28, 26, 30, 28, 30, 30, 30, 30, 28, 30, 30, 30, 30, 30, 30, 30, 30, 30, 30, 30, 30, 30, 30},
	{-1, 17, 28, 22, 16, 22, 28, 26, 26, 24, 28, 24, 28, 22, 24, 24, 30, 28, 28, 26, 28, 30, 24, 30, 30, 30, 30, 30, 30, 30, 30, 30, 30, 30, 30, 30, 30, 30, 30, 30, 30},
}

var qrNumBlocks = [4][41]int{
	{-1, 1, 1, 1, 1, 1, 2, 2, 2, 2, 4, 4, 4, 4, 4, 6, 6, 6, 6, 7, 8, 8, 9, 9, 10, 12, 12, 12, 13, 14, 15, 16, 17, 18, 19, 19, 20, 21, 22, 24, 25},
	{-1, 1, 1, 1, 2, 2, 4, 4, 4, 5, 5, 5, 8, 9, 9, 10, 10, 11, 13, 14, 16, 17, 17, 18, 20, 21, 23, 25, 26, 28, 29, 31, 33, 35, 37, 38, 40, 43, 45, 47, 49},
	{-1, 1, 1, 2, 2, 4, 4, 6, 6, 8, 8, 8, 10, 12, 16, 12, 17, 16, 18, 21, 20, 23, 23, 25, 27, 29, 34, 34, 35, 38, 40, 43, 45, 48, 51, 53, 56, 59, 62, 65, 68},
	{-1, 1, 1, 2, 4, 4, 4, 5, 6, 8, 8, 11, 11, 16, 16, 18, 16, 19, 21, 25, 25, 25, 34, 30, 32, 35, 37, 40, 42, 45, 48, 51, 54, 57, 60, 63, 66, 70, 74, 77, 81},
}

// Levels are numbered in the order of the library's constants: 0=L 1=M 2=Q 3=H.
var qrFormatBitsOfLevel = [4]int{1, 0, 3, 2}

func QRRawModules(v int) int {
	r := (16*v+128)*v + 64
	if v >= 2 {
		na := v/7 + 2
		r -= (25*na-10)*na - 55
		if v >= 7 {
			r -= 36
		}
	}
	return r
}

// QRDataCodewords is the data capacity in codewords of (version, level).
func QRDataCodewords(v, lvl int) int {
	return QRRawModules(v)/8 - qrEccPerBlock[lvl][v]*qrNumBlocks[lvl][v]
}

func QRBlocks(v, lvl int) (numBlocks, eccPerBlock int) {
	return qrNumBlocks[lvl][v], qrEccPerBlock[lvl][v]
}

func QRAlignmentCentres(v int) []int {
	if v == 1 {
		return nil
	}
	n := v/7 + 2
	step := 26
	if v != 32 {
		step = (v*4 + n*2 + 1) / (n*2 - 2) * 2
	}
	size := 17 + 4*v
	res := make([]int, n)
	res[0] = 6
	pos := size - 7
	for i := n - 1; i >= 1; i-- {
		res[i] = pos
		pos -= step
	}
	return res
}

// QRCharCountBits: mode 1 numeric, 2 alphanumeric, 4 byte.
func QRCharCountBits(mode, v int) int {
	k := 0
	if v >= 10 {
		k = 1
	}
	if v >= 27 {
		k = 2
	}
	switch mode {
	case 1:
		return [3]int{10, 12, 14}[k]
	case 2:
		return [3]int{9, 11, 13}[k]
	case 4:
		return [3]int{8, 16, 16}[k]
	}
	return 0
}

type QRSegment struct {
	Mode  int
	Count int
	Data  []byte
}

type QRResult struct {
	Version       int
	Level         int // 0=L 1=M 2=Q 3=H
	Mask          int
	NumBlocks     int
	EccPerBlock   int
	DataCodewords int
	Segments      []QRSegment
	Payload       []byte
	PayloadBits   int // bits used by segments (headers included)
	TerminatorLen int
	PadCodewords  int
	RemainderBits int
}

func bch(data, gen, n int) int {
	// remainder of data * x^n modulo gen (gen has n+1 bits, data < 2^n)
	rem := data
	for i := 0; i < n; i++ {
		rem = (rem << 1) ^ ((rem >> (n - 1)) * gen)
	}
	return rem & ((1 << n) - 1)
}

const qrAlnum = "0123456789ABCDEFGHIJKLMNOPQRSTUVWXYZ $%*+-./:"

func DecodeQR(g *Grid) (*QRResult, error) {
	n := g.W
	if g.W != g.H {
		return nil, fail("qr-size", "symbol is %dx%d, not square", g.W, g.H)
	}
	if n < 21 || n > 177 || (n-17)%4 != 0 {
		return nil, fail("qr-size", "%d modules is not 17+4v for v in 1..40", n)
	}
	v := (n - 17) / 4
	fn := make([]bool, n*n) // function module map
	mark := func(x, y int) { fn[y*n+x] = true }
	expect := func(x, y int, dark bool, rule, what string) error {
		mark(x, y)
		if g.At(x, y) != dark {
			return fail(rule, "%s: module (%d,%d) is dark=%v, want %v", what, x, y, g.At(x, y), dark)
		}
		return nil
	}
	// finder patterns with separators
	for _, o := range [][2]int{{0, 0}, {n - 7, 0}, {0, n - 7}} {
		for dy := -1; dy <= 7; dy++ {
			for dx := -1; dx <= 7; dx++ {
				x, y := o[0]+dx, o[1]+dy
				if x < 0 || y < 0 || x >= n || y >= n {
					continue
				}
				in := dx >= 0 && dx <= 6 && dy >= 0 && dy <= 6
				dark := in && (dx == 0 || dx == 6 || dy == 0 || dy == 6 || (dx >= 2 && dx <= 4 && dy >= 2 && dy <= 4))
				rule := "qr-finder"
				if !in {
					rule = "qr-separator"
				}
				if err := expect(x, y, dark, rule, "finder/separator"); err != nil {
					return nil, err
				}
			}
		}
	}
	// timing patterns
	for i := 8; i <= n-9; i++ {
		if err := expect(i, 6, i%2 == 0, "qr-timing", "horizontal timing"); err != nil {
			return nil, err
		}
		if err := expect(6, i, i%2 == 0, "qr-timing", "vertical timing"); err != nil {
			return nil, err
		}
	}
	// alignment patterns
	cs := QRAlignmentCentres(v)
	for i, cx := range cs {
		for j, cy := range cs {
			last := len(cs) - 1
			if (i == 0 && j == 0) || (i == 0 && j == last) || (i == last && j == 0) {
				continue
			}
			for dy := -2; dy <= 2; dy++ {
				for dx := -2; dx <= 2; dx++ {
					m := dx
					if m < 0 {
						m = -m
					}
					if dy > m {
						m = dy
					}
					if -dy > m {
						m = -dy
					}
					if err := expect(cx+dx, cy+dy, m != 1, "qr-alignment", "alignment pattern"); err != nil {
						return nil, err
					}
				}
			}
		}
	}
	// dark module
	if err := expect(8, n-8, true, "qr-darkmodule", "dark module"); err != nil {
		return nil, err
	}
	// format information, two copies
	var f1, f2 int
	get := func(x, y int) int {
		mark(x, y)
		if g.At(x, y) {
			return 1
		}
		return 0
	}
	for i := 0; i <= 5; i++ {
		f1 |= get(8, i) << uint(i)
	}
	f1 |= get(8, 7) << 6
	f1 |= get(8, 8) << 7
	f1 |= get(7, 8) << 8
	for i := 9; i <= 14; i++ {
		f1 |= get(14-i, 8) << uint(i)
	}
	for i := 0; i <= 7; i++ {
		f2 |= get(n-1-i, 8) << uint(i)
	}
	for i := 8; i <= 14; i++ {
		f2 |= get(8, n-15+i) << uint(i)
	}
	if f1 != f2 {
		return nil, fail("qr-format-copies", "format information copies differ: %015b vs %015b", f1, f2)
	}
	fu := f1 ^ 0x5412
	if bch(fu>>10, 0x537, 10) != fu&0x3ff {
		return nil, fail("qr-format-bch", "format information %015b is not a BCH(15,5) codeword", f1)
	}
	fb := fu >> 13
	mask := (fu >> 10) & 7
	lvl := -1
	for l, b := range qrFormatBitsOfLevel {
		if b == fb {
			lvl = l
		}
	}
	// version information
	if v >= 7 {
		var v1, v2 int
		for i := 0; i < 18; i++ {
			a, b := n-11+i%3, i/3
			v1 |= get(a, b) << uint(i)
			v2 |= get(b, a) << uint(i)
		}
		if v1 != v2 {
			return nil, fail("qr-version-copies", "version information copies differ: %018b vs %018b", v1, v2)
		}
		if bch(v1>>12, 0x1F25, 12) != v1&0xfff {
			return nil, fail("qr-version-bch", "version information %018b is not a BCH(18,6) codeword", v1)
		}
		if v1>>12 != v {
			return nil, fail("qr-version-value", "version information says %d, symbol size says %d", v1>>12, v)
		}
	}
	// read codewords along the zig-zag, unmasking
	maskBit := func(x, y int) bool {
		switch mask {
		case 0:
			return (x+y)%2 == 0
		case 1:
			return y%2 == 0
		case 2:
			return x%3 == 0
		case 3:
			return (x+y)%3 == 0
		case 4:
			return (x/3+y/2)%2 == 0
		case 5:
			return x*y%2+x*y%3 == 0
		case 6:
			return (x*y%2+x*y%3)%2 == 0
		default:
			return ((x+y)%2+x*y%3)%2 == 0
		}
	}
	raw := QRRawModules(v)
	bits := make([]bool, 0, raw)
	for right := n - 1; right >= 1; right -= 2 {
		if right == 6 {
			right = 5
		}
		for vert := 0; vert < n; vert++ {
			for j := 0; j < 2; j++ {
				x := right - j
				upward := (right+1)&2 == 0
				y := vert
				if upward {
					y = n - 1 - vert
				}
				if fn[y*n+x] {
					continue
				}
				bits = append(bits, g.At(x, y) != maskBit(x, y))
			}
		}
	}
	if len(bits) != raw {
		return nil, fail("qr-module-count", "%d data modules found, version %d has %d", len(bits), v, raw)
	}
	total := raw / 8
	for i := total * 8; i < raw; i++ {
		if bits[i] {
			return nil, fail("qr-remainder-bits", "remainder bit %d is not zero", i-total*8)
		}
	}
	cw := make([]int, total)
	for i := 0; i < total*8; i++ {
		if bits[i] {
			cw[i/8] |= 0x80 >> uint(i%8)
		}
	}
	// de-interleave
	nb, ecl := qrNumBlocks[lvl][v], qrEccPerBlock[lvl][v]
	shortLen := total / nb
	numShort := nb - total%nb
	dataLen := func(b int) int {
		if b < numShort {
			return shortLen - ecl
		}
		return shortLen - ecl + 1
	}
	blocks := make([][]int, nb)
	pos := 0
	maxData := shortLen - ecl + 1
	for i := 0; i < maxData; i++ {
		for b := 0; b < nb; b++ {
			if i < dataLen(b) {
				blocks[b] = append(blocks[b], cw[pos])
				pos++
			}
		}
	}
	for i := 0; i < ecl; i++ {
		for b := 0; b < nb; b++ {
			blocks[b] = append(blocks[b], cw[pos])
			pos++
		}
	}
	var data []int
	for b := 0; b < nb; b++ {
		if ok, e := GF256Q.SyndromesZero(blocks[b], 0, ecl); !ok {
			return nil, fail("qr-rs-block", "block %d of %d (version %d level %d, %d check codewords) is not a Reed-Solomon codeword: syndrome at alpha^%d non-zero", b, nb, v, lvl, ecl, e)
		}
		data = append(data, blocks[b][:dataLen(b)]...)
	}
	res := &QRResult{Version: v, Level: lvl, Mask: mask, NumBlocks: nb, EccPerBlock: ecl, DataCodewords: len(data), RemainderBits: raw % 8}
	// parse the bit stream
	nbits := len(data) * 8
	p := 0
	read := func(k int) int {
		r := 0
		for i := 0; i < k; i++ {
			r <<= 1
			if data[(p+i)/8]&(0x80>>uint((p+i)%8)) != 0 {
				r |= 1
			}
		}
		p += k
		return r
	}
	for {
		if nbits-p < 4 {
			res.TerminatorLen = nbits - p
			if read(nbits-p) != 0 {
				return nil, fail("qr-terminator", "the %d bits after the last segment are not zero", res.TerminatorLen)
			}
			break
		}
		mode := read(4)
		if mode == 0 {
			res.TerminatorLen = 4
			break
		}
		if mode != 1 && mode != 2 && mode != 4 {
			return nil, fail("qr-unsupported-segment", "mode indicator %04b", mode)
		}
		cb := QRCharCountBits(mode, v)
		if nbits-p < cb {
			return nil, fail("qr-truncated", "character count indicator cut short")
		}
		cnt := read(cb)
		seg := QRSegment{Mode: mode, Count: cnt}
		switch mode {
		case 1:
			rem := cnt
			for rem > 0 {
				k, w, lim := 3, 10, 999
				if rem == 2 {
					k, w, lim = 2, 7, 99
				} else if rem == 1 {
					k, w, lim = 1, 4, 9
				}
				if nbits-p < w {
					return nil, fail("qr-truncated", "numeric segment cut short")
				}
				val := read(w)
				if val > lim {
					return nil, fail("qr-numeric-range", "group value %d exceeds %d", val, lim)
				}
				d := []byte{byte('0' + val/100), byte('0' + val/10%10), byte('0' + val%10)}
				seg.Data = append(seg.Data, d[3-k:]...)
				rem -= k
			}
		case 2:
			rem := cnt
			for rem > 0 {
				if rem >= 2 {
					if nbits-p < 11 {
						return nil, fail("qr-truncated", "alphanumeric segment cut short")
					}
					val := read(11)
					if val >= 45*45 {
						return nil, fail("qr-alnum-range", "pair value %d", val)
					}
					seg.Data = append(seg.Data, qrAlnum[val/45], qrAlnum[val%45])
					rem -= 2
				} else {
					if nbits-p < 6 {
						return nil, fail("qr-truncated", "alphanumeric segment cut short")
					}
					val := read(6)
					if val >= 45 {
						return nil, fail("qr-alnum-range", "single value %d", val)
					}
					seg.Data = append(seg.Data, qrAlnum[val])
					rem--
				}
			}
		case 4:
			if nbits-p < 8*cnt {
				return nil, fail("qr-truncated", "byte segment of %d bytes cut short", cnt)
			}
			for i := 0; i < cnt; i++ {
				seg.Data = append(seg.Data, byte(read(8)))
			}
		}
		res.Segments = append(res.Segments, seg)
		res.Payload = append(res.Payload, seg.Data...)
		res.PayloadBits = p
	}
	// zero fill to the codeword boundary, then alternating pad codewords
	for p%8 != 0 {
		if read(1) != 0 {
			return nil, fail("qr-bitpad", "bit padding before the pad codewords is not zero")
		}
	}
	want := 0xEC
	for p < nbits {
		b := read(8)
		if b != want {
			return nil, fail("qr-padcodeword", "pad codeword %d is %#02x, want %#02x", res.PadCodewords, b, want)
		}
		want ^= 0xEC ^ 0x11
		res.PadCodewords++
	}
	return res, nil
}

// QRMinVersion returns the smallest version whose capacity at lvl holds a single
// segment of the given mode with n characters (0 if none).
func QRMinVersion(mode, n, lvl int) int {
	for v := 1; v <= 40; v++ {
		var db int
		switch mode {
		case 1:
			db = n / 3 * 10
			if n%3 == 1 {
				db += 4
			} else if n%3 == 2 {
				db += 7
			}
		case 2:
			db = n/2*11 + n%2*6
		default:
			db = 8 * n
		}
		if 4+QRCharCountBits(mode, v)+db <= 8*QRDataCodewords(v, lvl) {
			return v
		}
	}
	return 0
}

// QRCapacity is the largest number of characters a single segment of the mode can
// have in (version, level).
func QRCapacity(mode, v, lvl int) int {
	avail := 8*QRDataCodewords(v, lvl) - 4 - QRCharCountBits(mode, v)
	if avail < 0 {
		return 0
	}
	switch mode {
	case 1:
		n := avail / 10 * 3
		if r := avail % 10; r >= 7 {
			n += 2
		} else if r >= 4 {
			n++
		}
		return n
	case 2:
		n := avail / 11 * 2
		if avail%11 >= 6 {
			n++
		}
		return n
	}
	return avail / 8
}
