package refdec

// Reference Aztec Code (ISO/IEC 24778) reader: symbol size <-> (compact, layers),
// bullseye and orientation marks, Reed–Solomon-checked mode message, reference grid,
// spiral data extraction, RS syndromes in the field of the word size, bit un-stuffing
// and the Upper/Lower/Mixed/Punct/Digit/Binary-shift decoder.

type AztecResult struct {
	Compact     bool
	Layers      int
	WordSize    int
	DataWords   int
	TotalWords  int
	Payload     []byte
	PayloadBits int // un-stuffed bits consumed by the payload codes
	DataBits    int // un-stuffed bits available
	Features    map[string]int
	LeadingPad  int
}

func aztecWordSize(layers int) int {
	switch {
	case layers <= 2:
		return 6
	case layers <= 8:
		return 8
	case layers <= 22:
		return 10
	}
	return 12
}

// AztecSize returns the module count per side.
func AztecSize(compact bool, layers int) int {
	if compact {
		return 11 + 4*layers
	}
	base := 14 + 4*layers
	return base + 1 + 2*((base/2-1)/15)
}

func AztecTotalBits(compact bool, layers int) int {
	if compact {
		return (88 + 16*layers) * layers
	}
	return (112 + 16*layers) * layers
}

func aztecField(ws int) Field {
	switch ws {
	case 4:
		return GF16
	case 6:
		return GF64
	case 8:
		return GF256D
	case 10:
		return GF1024
	}
	return GF4096
}

var aztecUpper = [32]string{"P/S", " ", "A", "B", "C", "D", "E", "F", "G", "H", "I", "J", "K", "L", "M", "N", "O", "P", "Q", "R", "S", "T", "U", "V", "W", "X", "Y", "Z", "L/L", "M/L", "D/L", "B/S"}
var aztecLower = [32]string{"P/S", " ", "a", "b", "c", "d", "e", "f", "g", "h", "i", "j", "k", "l", "m", "n", "o", "p", "q", "r", "s", "t", "u", "v", "w", "x", "y", "z", "U/S", "M/L", "D/L", "B/S"}
var aztecMixed = [32]string{"P/S", " ", "\x01", "\x02", "\x03", "\x04", "\x05", "\x06", "\x07", "\x08", "\x09", "\x0a", "\x0b", "\x0c", "\x0d", "\x1b", "\x1c", "\x1d", "\x1e", "\x1f", "@", "\\", "^", "_", "`", "|", "~", "\x7f", "L/L", "U/L", "P/L", "B/S"}
var aztecPunct = [32]string{"FLG", "\r", "\r\n", ". ", ", ", ": ", "!", "\"", "#", "$", "%", "&", "'", "(", ")", "*", "+", ",", "-", ".", "/", ":", ";", "<", "=", ">", "?", "[", "]", "{", "}", "U/L"}
var aztecDigit = [16]string{"P/S", " ", "0", "1", "2", "3", "4", "5", "6", "7", "8", "9", ",", ".", "U/L", "U/S"}

func isCtrl(s string) bool { return len(s) == 3 && s[1] == '/' || s == "FLG" }

func DecodeAztec(g *Grid) (*AztecResult, error) {
	n := g.W
	if g.W != g.H || n%2 == 0 {
		return nil, fail("aztec-size", "symbol is %dx%d", g.W, g.H)
	}
	c := n / 2
	ring := func(d int) (allDark, allLight bool) {
		allDark, allLight = true, true
		for t := -d; t <= d; t++ {
			for _, p := range [][2]int{{c + t, c - d}, {c + t, c + d}, {c - d, c + t}, {c + d, c + t}} {
				if g.At(p[0], p[1]) {
					allLight = false
				} else {
					allDark = false
				}
			}
		}
		return
	}
	// bullseye rings 0..4 must alternate; ring 5 light + ring 6 dark decides full-range
	for d := 0; d <= 4; d++ {
		dk, lt := ring(d)
		if d%2 == 0 && !dk || d%2 == 1 && !lt {
			return nil, fail("aztec-bullseye", "bullseye ring at distance %d is not uniformly %s", d, map[bool]string{true: "dark", false: "light"}[d%2 == 0])
		}
	}
	_, lt5 := ring(5)
	dk6 := false
	if c >= 7 {
		dk6, _ = ring(6)
	}
	compact := !(lt5 && dk6)
	s := 5
	if !compact {
		s = 7
	}
	// which layer count has this size
	layers := 0
	maxL := 32
	if compact {
		maxL = 4
	}
	for l := 1; l <= maxL; l++ {
		if AztecSize(compact, l) == n {
			layers = l
		}
	}
	if layers == 0 {
		return nil, fail("aztec-size", "%d modules per side is no %s Aztec size", n, map[bool]string{true: "compact", false: "full-range"}[compact])
	}
	// orientation marks on ring s
	orient := []struct {
		x, y int
		dark bool
	}{
		{c - s, c - s, true}, {c - s + 1, c - s, true}, {c - s, c - s + 1, true},
		{c + s, c - s, true}, {c + s, c - s + 1, true}, {c + s - 1, c - s, false},
		{c + s, c + s, false}, {c + s, c + s - 1, true}, {c + s - 1, c + s, false},
		{c - s, c + s, false}, {c - s + 1, c + s, false}, {c - s, c + s - 1, false},
	}
	for _, o := range orient {
		if g.At(o.x, o.y) != o.dark {
			return nil, fail("aztec-orientation", "orientation module (%d,%d) is dark=%v", o.x, o.y, !o.dark)
		}
	}
	// mode message
	var mm []bool
	if compact {
		mm = make([]bool, 28)
		for i := 0; i < 7; i++ {
			o := c - 3 + i
			mm[i] = g.At(o, c-5)
			mm[7+i] = g.At(c+5, o)
			mm[20-i] = g.At(o, c+5)
			mm[27-i] = g.At(c-5, o)
		}
	} else {
		mm = make([]bool, 40)
		for i := 0; i < 10; i++ {
			o := c - 5 + i + i/5
			mm[i] = g.At(o, c-7)
			mm[10+i] = g.At(c+7, o)
			mm[29-i] = g.At(o, c+7)
			mm[39-i] = g.At(c-7, o)
		}
		// the four ring modules on the centre lines belong to the reference grid (odd distance: light)
		for _, p := range [][2]int{{c, c - 7}, {c, c + 7}, {c - 7, c}, {c + 7, c}} {
			if g.At(p[0], p[1]) {
				return nil, fail("aztec-reference-grid", "reference grid module (%d,%d) on the mode message ring is dark", p[0], p[1])
			}
		}
	}
	mw := make([]int, len(mm)/4)
	for i, b := range mm {
		if b {
			mw[i/4] |= 8 >> uint(i%4)
		}
	}
	mdata := 2
	if !compact {
		mdata = 4
	}
	if ok, e := GF16.SyndromesZero(mw, 1, len(mw)-mdata); !ok {
		return nil, fail("aztec-mode-rs", "mode message %v is not a Reed-Solomon codeword over GF(16): syndrome at alpha^%d non-zero", mw, e)
	}
	var mLayers, mWords int
	if compact {
		v := mw[0]<<4 | mw[1]
		mLayers, mWords = v>>6+1, v&63+1
	} else {
		v := mw[0]<<12 | mw[1]<<8 | mw[2]<<4 | mw[3]
		mLayers, mWords = v>>11+1, v&2047+1
	}
	if mLayers != layers {
		return nil, fail("aztec-mode-layers", "mode message says %d layers, the symbol size (%d modules, compact=%v) means %d", mLayers, n, compact, layers)
	}
	ws := aztecWordSize(layers)
	totalBits := AztecTotalBits(compact, layers)
	totalWords := totalBits / ws
	if mWords > totalWords {
		return nil, fail("aztec-mode-datawords", "mode message says %d data words, the symbol has only %d words", mWords, totalWords)
	}
	// reference grid (full-range): lines every 16 modules from the centre, alternating
	base := 14 + 4*layers
	if compact {
		base = 11 + 4*layers
	}
	amap := make([]int, base)
	if compact {
		for i := range amap {
			amap[i] = i
		}
	} else {
		oc := base / 2
		for i := 0; i < oc; i++ {
			no := i + i/15
			amap[oc-i-1] = c - no - 1
			amap[oc+i] = c + no + 1
		}
		for k := 0; c+16*k < n; k++ {
			for _, line := range []int{c - 16*k, c + 16*k} {
				for t := 0; t < n; t++ {
					// inside the bullseye/mode ring the finder takes precedence
					in := func(x, y int) bool { return abs(x-c) <= 7 && abs(y-c) <= 7 }
					want := (t-c)%2 == 0
					if !in(t, line) && g.At(t, line) != want {
						return nil, fail("aztec-reference-grid", "reference grid module (%d,%d) is dark=%v", t, line, !want)
					}
					if !in(line, t) && g.At(line, t) != want {
						return nil, fail("aztec-reference-grid", "reference grid module (%d,%d) is dark=%v", line, t, !want)
					}
				}
			}
		}
	}
	// spiral extraction, outermost layer first, counter-clockwise from the top-left
	raw := make([]bool, totalBits)
	rowOffset := 0
	for i := 0; i < layers; i++ {
		rowSize := (layers-i)*4 + 12
		if compact {
			rowSize = (layers-i)*4 + 9
		}
		low, high := i*2, base-1-i*2
		for j := 0; j < rowSize; j++ {
			co := j * 2
			for k := 0; k < 2; k++ {
				raw[rowOffset+co+k] = g.At(amap[low+k], amap[low+j])
				raw[rowOffset+2*rowSize+co+k] = g.At(amap[low+j], amap[high-k])
				raw[rowOffset+4*rowSize+co+k] = g.At(amap[high-k], amap[high-j])
				raw[rowOffset+6*rowSize+co+k] = g.At(amap[high-j], amap[low+k])
			}
		}
		rowOffset += rowSize * 8
	}
	res := &AztecResult{Compact: compact, Layers: layers, WordSize: ws, DataWords: mWords, TotalWords: totalWords, Features: map[string]int{}}
	lead := totalBits % ws
	for i := 0; i < lead; i++ {
		if raw[i] {
			// the modules in front of the first codeword (fewer than one word) are unused
			// and left light; found unconstrained by tools/oracle_sensitivity.sh
			return nil, fail("aztec-leading-pad", "unused module %d in front of the first codeword is dark", i)
		}
	}
	words := make([]int, totalWords)
	for i := 0; i < totalWords; i++ {
		v := 0
		for j := 0; j < ws; j++ {
			v <<= 1
			if raw[lead+i*ws+j] {
				v |= 1
			}
		}
		words[i] = v
	}
	if ok, e := aztecField(ws).SyndromesZero(words, 1, totalWords-mWords); !ok {
		return nil, fail("aztec-rs", "%d words of %d bits (%d data) are not a Reed-Solomon codeword: syndrome at alpha^%d non-zero", totalWords, ws, mWords, e)
	}
	// un-stuff
	var bits []bool
	all1 := 1<<uint(ws) - 1
	for i := 0; i < mWords; i++ {
		w := words[i]
		if w == 0 || w == all1 {
			return nil, fail("aztec-forbidden-word", "data word %d is %0*b", i, ws, w)
		}
		k := ws
		if w == 1 || w == all1-1 {
			k = ws - 1
		}
		for j := 0; j < k; j++ {
			bits = append(bits, w&(1<<uint(ws-1-j)) != 0)
		}
	}
	res.DataBits = len(bits)
	payload, used, err := aztecDecodeBits(bits, ws, res.Features)
	if err != nil {
		return nil, err
	}
	res.Payload, res.PayloadBits = payload, used
	return res, nil
}

func abs(a int) int {
	if a < 0 {
		return -a
	}
	return a
}

func aztecDecodeBits(bits []bool, ws int, feat map[string]int) ([]byte, int, error) {
	var out []byte
	p := 0
	read := func(k int) int {
		v := 0
		for i := 0; i < k; i++ {
			v <<= 1
			if bits[p+i] {
				v |= 1
			}
		}
		p += k
		return v
	}
	tailIsFill := func() bool {
		if len(bits)-p >= ws {
			return false
		}
		for i := p; i < len(bits); i++ {
			if !bits[i] {
				return false
			}
		}
		return true
	}
	latch, shift := 'U', rune(0)
	for p < len(bits) {
		if tailIsFill() {
			break
		}
		mode := latch
		if shift != 0 {
			mode = shift
		}
		size := 5
		if mode == 'D' {
			size = 4
		}
		if len(bits)-p < size {
			return nil, 0, fail("aztec-truncated", "%d bits left, not all ones, in mode %c", len(bits)-p, mode)
		}
		code := read(size)
		var s string
		switch mode {
		case 'U':
			s = aztecUpper[code]
		case 'L':
			s = aztecLower[code]
		case 'M':
			s = aztecMixed[code]
		case 'P':
			s = aztecPunct[code]
		case 'D':
			s = aztecDigit[code]
		}
		wasShift := shift != 0
		shift = 0
		if !isCtrl(s) {
			out = append(out, s...)
			if len(s) == 2 {
				feat["punct-pair"]++
			}
			continue
		}
		if wasShift {
			return nil, 0, fail("aztec-ctrl-in-shift", "control code %s while shifted", s)
		}
		switch s {
		case "FLG":
			return nil, 0, fail("aztec-flg", "FLG(n) code is not produced by a plain byte payload")
		case "B/S":
			if len(bits)-p < 5 {
				return nil, 0, fail("aztec-truncated", "binary shift length cut short")
			}
			ln := read(5)
			if ln == 0 {
				if len(bits)-p < 11 {
					return nil, 0, fail("aztec-truncated", "binary shift long length cut short")
				}
				ln = read(11) + 31
				feat["B/S-long"]++
			} else {
				feat["B/S-short"]++
			}
			if len(bits)-p < 8*ln {
				return nil, 0, fail("aztec-truncated", "binary shift of %d bytes cut short (%d bits left)", ln, len(bits)-p)
			}
			for i := 0; i < ln; i++ {
				out = append(out, byte(read(8)))
			}
			feat["B/S-from-"+string(latch)]++
		default:
			target := rune(s[0])
			feat[string(mode)+">"+s]++
			if s[2] == 'L' {
				latch = target
			} else {
				shift = target
			}
		}
	}
	if shift != 0 && !tailIsFill() {
		return nil, 0, fail("aztec-truncated", "shift without a following character")
	}
	return out, p, nil
}

// AztecSimpleBits returns the length in bits of one valid high-level encoding of b —
// mode latches, the two-character Punct codes and binary shifts only, no other
// shifts — found by dynamic programming over (position, mode).  It is an upper bound
// on the shortest encoding: whatever fits with this many bits is representable.
func AztecSimpleBits(b []byte) int {
	const inf = 1 << 60
	latch := [5][5]int{{0, 5, 5, 10, 5}, {9, 0, 5, 10, 5}, {5, 5, 0, 5, 10}, {5, 10, 10, 0, 10}, {4, 9, 9, 14, 0}} // U L M P D
	width := [5]int{5, 5, 5, 5, 4}
	var single [5][256]bool
	for m, tbl := range [][]string{aztecUpper[:], aztecLower[:], aztecMixed[:], aztecPunct[:], aztecDigit[:]} {
		for _, s := range tbl {
			if len(s) == 1 {
				single[m][s[0]] = true
			}
		}
	}
	pair := func(a, c byte) bool {
		return (a == '\r' && c == '\n') || (c == ' ' && (a == '.' || a == ',' || a == ':'))
	}
	n := len(b)
	dp := make([][5]int, n+2)
	for i := range dp {
		dp[i] = [5]int{inf, inf, inf, inf, inf}
	}
	dp[0][0] = 0
	lower := func(p *int, v int) {
		if v < *p {
			*p = v
		}
	}
	for i := 0; i < n; i++ {
		// latches
		cur := dp[i]
		for a := 0; a < 5; a++ {
			for c := 0; c < 5; c++ {
				if dp[i][a] < inf {
					lower(&cur[c], dp[i][a]+latch[a][c])
				}
			}
		}
		if cur == [5]int{inf, inf, inf, inf, inf} {
			continue // inside a binary run
		}
		inAny := false
		for m := 0; m < 5; m++ {
			if single[m][b[i]] {
				inAny = true
				if cur[m] < inf {
					lower(&dp[i+1][m], cur[m]+width[m])
				}
			}
		}
		if i+1 < n && pair(b[i], b[i+1]) && cur[3] < inf {
			lower(&dp[i+2][3], cur[3]+5)
		}
		// binary shift over b[i:j] for every run end j up to the next 64 bytes or the
		// end of the bytes that are in no table
		j := i
		for j < n {
			any := false
			for m := 0; m < 5; m++ {
				any = any || single[m][b[j]]
			}
			if any && (inAny || j > i) {
				break
			}
			j++
		}
		if j > i {
			k := j - i
			c := 0
			for k > 0 {
				q := k
				if q > 2078 {
					q = 2078
				}
				c += 5 + 8*q
				if q <= 31 {
					c += 5
				} else {
					c += 16
				}
				k -= q
			}
			for _, m := range []int{0, 1, 2} { // B/S exists in Upper, Lower and Mixed
				if cur[m] < inf {
					lower(&dp[j][m], cur[m]+c)
				}
			}
		}
	}
	best := inf
	for m := 0; m < 5; m++ {
		lower(&best, dp[n][m])
	}
	return best
}
