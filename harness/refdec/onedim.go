package refdec

import (
	"strings"
)

// ---------------------------------------------------------------- Code 128

// code128Widths: bar/space widths of the 107 symbol characters of ISO/IEC 15417
// (value 106 is the 13-module stop pattern).
var code128Widths = [107]string{
	"212222", "222122", "222221", "121223", "121322", "131222", "122213", "122312", "132212", "221213",
	"221312", "231212", "112232", "122132", "122231", "113222", "123122", "123221", "223211", "221132",
	"221231", "213212", "223112", "312131", "311222", "321122", "321221", "312212", "322112", "322211",
	"212123", "212321", "232121", "111323", "131123", "131321", "112313", "132113", "132311", "211313",
	"231113", "231311", "112133", "112331", "132131", "113123", "113321", "133121", "313121", "211331",
	"231131", "213113", "213311", "213131", "311123", "311321", "331121", "312113", "312311", "332111",
	"314111", "221411", "431111", "111224", "111422", "121124", "121421", "141122", "141221", "112214",
	"112412", "122114", "122411", "142112", "142211", "241211", "221114", "413111", "241112", "134111",
	"111242", "121142", "121241", "114212", "124112", "124211", "411212", "421112", "421211", "212141",
	"214121", "412121", "111143", "111341", "131141", "114113", "114311", "411113", "411311", "113141",
	"114131", "311141", "411131", "211412", "211214", "211232", "2331112",
}

var code128ByPattern map[string]int

func init() {
	code128ByPattern = map[string]int{}
	for v, w := range code128Widths {
		code128ByPattern[widthsToBits(w)] = v
	}
}

func widthsToBits(w string) string {
	var sb strings.Builder
	dark := true
	for _, c := range w {
		for i := 0; i < int(c-'0'); i++ {
			if dark {
				sb.WriteByte('1')
			} else {
				sb.WriteByte('0')
			}
		}
		dark = !dark
	}
	return sb.String()
}

// Code 128 function characters are reported as the runes the library's API uses.
const (
	FNC1 = 'ñ'
	FNC2 = 'ò'
	FNC3 = 'ó'
	FNC4 = 'ô'
)

type Code128Result struct {
	Values   []int // all symbol values incl. start, excl. check and stop
	Check    int   // value of the drawn check character (-1 if the variant has none)
	Expected int   // (start + Σ i·v_i) mod 103
	Text     string
	Sets     []byte // code set in force for every data value ('A','B','C')
}

// DecodeCode128 reads a Code 128 module row. withCheck tells whether the variant
// under test is supposed to carry the modulo-103 check character.
func DecodeCode128(bits []bool, withCheck bool) (*Code128Result, error) {
	n := len(bits)
	if n < 11+13 || (n-13)%11 != 0 {
		return nil, fail("c128-length", "%d modules is not k*11+13", n)
	}
	s := bitString(bits)
	var vals []int
	for i := 0; i+13 < n; i += 11 {
		v, ok := code128ByPattern[s[i:i+11]]
		if !ok || v == 106 {
			return nil, fail("c128-pattern", "modules %d..%d (%s) are not a Code 128 symbol character", i, i+11, s[i:i+11])
		}
		vals = append(vals, v)
	}
	if s[n-13:] != widthsToBits(code128Widths[106]) {
		return nil, fail("c128-stop", "last 13 modules %s are not the stop pattern", s[n-13:])
	}
	res := &Code128Result{Check: -1}
	if len(vals) < 1 {
		return nil, fail("c128-short", "no start character")
	}
	if withCheck {
		if len(vals) < 2 {
			return nil, fail("c128-short", "no check character")
		}
		res.Check = vals[len(vals)-1]
		vals = vals[:len(vals)-1]
	}
	if vals[0] < 103 || vals[0] > 105 {
		return nil, fail("c128-start", "first character value %d is not START A/B/C", vals[0])
	}
	sum := vals[0]
	for i := 1; i < len(vals); i++ {
		sum += i * vals[i]
	}
	res.Expected = sum % 103
	res.Values = vals
	if withCheck && res.Check != res.Expected {
		return nil, fail("c128-check", "drawn check character %d, modulo-103 sum is %d", res.Check, res.Expected)
	}
	set := byte('A' + (vals[0] - 103))
	shift := byte(0)
	var out []rune
	for i := 1; i < len(vals); i++ {
		v := vals[i]
		cur := set
		if shift != 0 {
			cur = shift
			shift = 0
		}
		if v >= 103 {
			return nil, fail("c128-inner-start", "start/stop value %d inside the data", v)
		}
		res.Sets = append(res.Sets, cur)
		switch cur {
		case 'C':
			switch {
			case v < 100:
				out = append(out, rune('0'+v/10), rune('0'+v%10))
			case v == 100:
				set = 'B'
			case v == 101:
				set = 'A'
			case v == 102:
				out = append(out, FNC1)
			}
		case 'A', 'B':
			switch {
			case v < 64:
				out = append(out, rune(v+32))
			case v < 96:
				if cur == 'A' {
					out = append(out, rune(v-64))
				} else {
					out = append(out, rune(v+32))
				}
			case v == 96:
				out = append(out, FNC3)
			case v == 97:
				out = append(out, FNC2)
			case v == 98:
				if cur == 'A' {
					shift = 'B'
				} else {
					shift = 'A'
				}
			case v == 99:
				set = 'C'
			case v == 100:
				if cur == 'B' {
					out = append(out, FNC4)
				} else {
					set = 'B'
				}
			case v == 101:
				if cur == 'A' {
					out = append(out, FNC4)
				} else {
					set = 'A'
				}
			case v == 102:
				out = append(out, FNC1)
			}
		}
	}
	if shift != 0 {
		return nil, fail("c128-dangling-shift", "SHIFT is the last data character")
	}
	res.Text = string(out)
	return res, nil
}

// ---------------------------------------------------------------- EAN

var eanL = [10]string{"0001101", "0011001", "0010011", "0111101", "0100011", "0110001", "0101111", "0111011", "0110111", "0001011"}
var eanParity = [10]string{"LLLLLL", "LLGLGG", "LLGGLG", "LLGGGL", "LGLLGG", "LGGLLG", "LGGGLL", "LGLGLG", "LGLGGL", "LGGLGL"}

func eanR(d int) string {
	b := []byte(eanL[d])
	for i := range b {
		b[i] ^= 1 // '0'<->'1'
	}
	return string(b)
}
func eanG(d int) string {
	r := []byte(eanR(d))
	for i, j := 0, len(r)-1; i < j; i, j = i+1, j-1 {
		r[i], r[j] = r[j], r[i]
	}
	return string(r)
}

// GS1CheckDigit computes the modulo-10 check digit for the digits without it.
func GS1CheckDigit(digits string) int {
	sum := 0
	w := 3
	for i := len(digits) - 1; i >= 0; i-- {
		sum += int(digits[i]-'0') * w
		w = 4 - w
	}
	return (10 - sum%10) % 10
}

// DecodeEAN reads an EAN-8 (67 modules) or EAN-13 (95 modules) row.
func DecodeEAN(bits []bool) (string, error) {
	s := bitString(bits)
	lookup := func(set byte, pat string) int {
		for d := 0; d < 10; d++ {
			var p string
			switch set {
			case 'L':
				p = eanL[d]
			case 'G':
				p = eanG(d)
			default:
				p = eanR(d)
			}
			if p == pat {
				return d
			}
		}
		return -1
	}
	switch len(s) {
	case 67:
		if s[:3] != "101" || s[31:36] != "01010" || s[64:] != "101" {
			return "", fail("ean-guard", "guard bars wrong: %s %s %s", s[:3], s[31:36], s[64:])
		}
		out := make([]byte, 0, 8)
		for i := 0; i < 4; i++ {
			d := lookup('L', s[3+7*i:10+7*i])
			if d < 0 {
				return "", fail("ean-digit", "left digit %d pattern %s not in set L", i, s[3+7*i:10+7*i])
			}
			out = append(out, byte('0'+d))
		}
		for i := 0; i < 4; i++ {
			d := lookup('R', s[36+7*i:43+7*i])
			if d < 0 {
				return "", fail("ean-digit", "right digit %d pattern %s not in set R", i, s[36+7*i:43+7*i])
			}
			out = append(out, byte('0'+d))
		}
		return string(out), nil
	case 95:
		if s[:3] != "101" || s[45:50] != "01010" || s[92:] != "101" {
			return "", fail("ean-guard", "guard bars wrong: %s %s %s", s[:3], s[45:50], s[92:])
		}
		par := make([]byte, 6)
		left := make([]byte, 6)
		for i := 0; i < 6; i++ {
			p := s[3+7*i : 10+7*i]
			if d := lookup('L', p); d >= 0 {
				par[i], left[i] = 'L', byte('0'+d)
			} else if d := lookup('G', p); d >= 0 {
				par[i], left[i] = 'G', byte('0'+d)
			} else {
				return "", fail("ean-digit", "left digit %d pattern %s in neither L nor G", i, p)
			}
		}
		first := -1
		for d := 0; d < 10; d++ {
			if eanParity[d] == string(par) {
				first = d
			}
		}
		if first < 0 {
			return "", fail("ean-parity", "parity sequence %s encodes no first digit", par)
		}
		out := []byte{byte('0' + first)}
		out = append(out, left...)
		for i := 0; i < 6; i++ {
			d := lookup('R', s[50+7*i:57+7*i])
			if d < 0 {
				return "", fail("ean-digit", "right digit %d pattern %s not in set R", i, s[50+7*i:57+7*i])
			}
			out = append(out, byte('0'+d))
		}
		return string(out), nil
	}
	return "", fail("ean-length", "%d modules is neither 67 nor 95", len(s))
}

// ---------------------------------------------------------------- narrow/wide helper

// classify maps run lengths to narrow(0)/wide(1); one wide width (2 or 3) per symbol.
func classify(r []int, rule string) ([]int, int, error) {
	wide := 0
	out := make([]int, len(r))
	for i, v := range r {
		switch {
		case v == 1:
			out[i] = 0
		case v == 2 || v == 3:
			if wide != 0 && wide != v {
				return nil, 0, fail(rule+"-ratio", "wide elements of %d and %d modules in one symbol", wide, v)
			}
			wide = v
			out[i] = 1
		default:
			return nil, 0, fail(rule+"-element", "element of %d modules", v)
		}
	}
	return out, wide, nil
}

// ---------------------------------------------------------------- Code 39

const code39Alphabet = "0123456789ABCDEFGHIJKLMNOPQRSTUVWXYZ-. $/+%"

var twoOfFive = [10]string{"00110", "10001", "01001", "11000", "00101", "10100", "01100", "00011", "10010", "01010"}

// code39Elements returns the 9 elements (bar,space,bar,…) as narrow(0)/wide(1), built
// by the symbology's construction rule.
func code39Elements(ch byte) (string, bool) {
	barsOf := func(pos int) string { return twoOfFive[(pos+1)%10] } // position 0 → "1", … 9 → "0"
	mk := func(bars string, wideSpace int) string {
		e := []byte("000000000")
		for i := 0; i < 5; i++ {
			e[2*i] = bars[i]
		}
		e[2*wideSpace+1] = '1'
		return string(e)
	}
	switch {
	case ch >= '1' && ch <= '9':
		return mk(barsOf(int(ch-'1')), 1), true
	case ch == '0':
		return mk(barsOf(9), 1), true
	case ch >= 'A' && ch <= 'J':
		return mk(barsOf(int(ch-'A')), 2), true
	case ch >= 'K' && ch <= 'T':
		return mk(barsOf(int(ch-'K')), 3), true
	}
	if i := strings.IndexByte("UVWXYZ-. *", ch); i >= 0 {
		return mk(barsOf(i), 0), true
	}
	switch ch {
	case '$':
		return "010101000", true
	case '/':
		return "010100010", true
	case '+':
		return "010001010", true
	case '%':
		return "000101010", true
	}
	return "", false
}

var code39ByElements map[string]byte

func init() {
	code39ByElements = map[string]byte{}
	for _, ch := range []byte(code39Alphabet + "*") {
		e, _ := code39Elements(ch)
		code39ByElements[e] = ch
	}
}

func Code39Value(ch byte) int { return strings.IndexByte(code39Alphabet, ch) }

type Code39Result struct {
	Symbols  string // data characters between the two '*', incl. a check character if present
	Data     string // without the check character
	Check    int    // value of the drawn check character or -1
	Expected int    // Σ values mod 43 of Data
	Wide     int
}

func DecodeCode39(bits []bool, withCheck bool) (*Code39Result, error) {
	r, err := runs(bits)
	if err != nil {
		return nil, err
	}
	if (len(r)+1)%10 != 0 {
		return nil, fail("c39-elements", "%d elements is not 10k-1", len(r))
	}
	cl, wide, err := classify(r, "c39")
	if err != nil {
		return nil, err
	}
	var syms []byte
	for i := 0; i < len(cl); i += 10 {
		var e [9]byte
		for j := 0; j < 9; j++ {
			e[j] = byte('0' + cl[i+j])
		}
		ch, ok := code39ByElements[string(e[:])]
		if !ok {
			return nil, fail("c39-pattern", "character %d elements %s not in the Code 39 table", i/10, e[:])
		}
		syms = append(syms, ch)
		if i+9 < len(cl) && cl[i+9] != 0 {
			return nil, fail("c39-gap", "inter-character gap after character %d is wide", i/10)
		}
	}
	if len(syms) < 2 || syms[0] != '*' || syms[len(syms)-1] != '*' {
		return nil, fail("c39-startstop", "symbol does not begin and end with *: %q", syms)
	}
	inner := syms[1 : len(syms)-1]
	if strings.IndexByte(string(inner), '*') >= 0 {
		return nil, fail("c39-inner-star", "start/stop character inside the data: %q", inner)
	}
	res := &Code39Result{Symbols: string(inner), Check: -1, Wide: wide}
	data := inner
	if withCheck {
		if len(inner) < 1 {
			return nil, fail("c39-nocheck", "check character requested but symbol has no data characters")
		}
		res.Check = Code39Value(inner[len(inner)-1])
		data = inner[:len(inner)-1]
	}
	sum := 0
	for _, c := range data {
		sum += Code39Value(c)
	}
	res.Expected = sum % 43
	res.Data = string(data)
	if withCheck && res.Check != res.Expected {
		return nil, fail("c39-check", "drawn check character has value %d, modulo-43 sum is %d", res.Check, res.Expected)
	}
	return res, nil
}

// Code39FullASCII resolves the shift pairs of full-ASCII Code 39.
func Code39FullASCII(s string) (string, error) {
	var out []byte
	for i := 0; i < len(s); i++ {
		c := s[i]
		if c != '$' && c != '%' && c != '/' && c != '+' {
			out = append(out, c)
			continue
		}
		if i+1 >= len(s) {
			return "", fail("c39-fullascii", "dangling shift character %q", c)
		}
		n := s[i+1]
		i++
		if n < 'A' || n > 'Z' {
			return "", fail("c39-fullascii", "shift %q followed by %q", c, n)
		}
		k := int(n - 'A')
		switch c {
		case '$':
			out = append(out, byte(1+k))
		case '+':
			out = append(out, byte('a'+k))
		case '/':
			switch {
			case k <= 14:
				out = append(out, byte(33+k))
			case n == 'Z':
				out = append(out, ':')
			default:
				return "", fail("c39-fullascii", "undefined pair /%c", n)
			}
		case '%':
			switch {
			case k <= 4:
				out = append(out, byte(27+k))
			case k <= 9:
				out = append(out, byte(59+k-5))
			case k <= 14:
				out = append(out, byte(91+k-10))
			case k <= 19:
				out = append(out, byte(123+k-15))
			case n == 'U':
				out = append(out, 0)
			case n == 'V':
				out = append(out, '@')
			case n == 'W':
				out = append(out, '`')
			default:
				out = append(out, 127)
			}
		}
	}
	return string(out), nil
}

// ---------------------------------------------------------------- Code 93

// code93Widths in value order 0..46, then the start/stop character.
var code93Widths = [48]string{
	"131112", "111213", "111312", "111411", "121113", "121212", "121311", "111114", "131211", "141111",
	"211113", "211212", "211311", "221112", "221211", "231111", "112113", "112212", "112311", "122112",
	"132111", "111123", "111222", "111321", "121122", "131121", "212112", "212211", "211122", "211221",
	"221121", "222111", "112122", "112221", "122121", "123111", "121131", "311112", "311211", "321111",
	"112131", "113121", "211131", "121221", "312111", "311121", "122211", "111141",
}

var code93ByPattern map[string]int

func init() {
	code93ByPattern = map[string]int{}
	for v, w := range code93Widths {
		code93ByPattern[widthsToBits(w)] = v
	}
}

// Code93Char maps a value 0..46 to the rune the library's API uses for it.
func Code93Char(v int) rune {
	if v < 43 {
		return rune(code39Alphabet[v])
	}
	return rune(0xf1 + v - 43)
}

type Code93Result struct {
	Values []int // data values without check characters
	C, K   int   // drawn check values (-1 if none)
	ExpC   int
	ExpK   int
}

func code93Check(vals []int, maxW int) int {
	w, t := 1, 0
	for i := len(vals) - 1; i >= 0; i-- {
		t += vals[i] * w
		w++
		if w > maxW {
			w = 1
		}
	}
	return t % 47
}

func DecodeCode93(bits []bool, withCheck bool) (*Code93Result, error) {
	n := len(bits)
	if n < 19 || (n-1)%9 != 0 {
		return nil, fail("c93-length", "%d modules is not 9k+1", n)
	}
	if !bits[n-1] {
		return nil, fail("c93-termination", "termination bar missing")
	}
	s := bitString(bits)
	var vals []int
	for i := 0; i+9 <= n-1; i += 9 {
		v, ok := code93ByPattern[s[i:i+9]]
		if !ok {
			return nil, fail("c93-pattern", "modules %d..%d (%s) are not a Code 93 character", i, i+9, s[i:i+9])
		}
		vals = append(vals, v)
	}
	if len(vals) < 2 || vals[0] != 47 || vals[len(vals)-1] != 47 {
		return nil, fail("c93-startstop", "symbol does not begin and end with the start/stop character")
	}
	inner := vals[1 : len(vals)-1]
	for _, v := range inner {
		if v == 47 {
			return nil, fail("c93-inner-star", "start/stop character inside the data")
		}
	}
	res := &Code93Result{C: -1, K: -1}
	data := inner
	if withCheck {
		if len(inner) < 2 {
			return nil, fail("c93-nocheck", "check characters requested but only %d characters between start and stop", len(inner))
		}
		res.C = inner[len(inner)-2]
		res.K = inner[len(inner)-1]
		data = inner[:len(inner)-2]
		res.ExpC = code93Check(data, 20)
		res.ExpK = code93Check(append(append([]int{}, data...), res.ExpC), 15)
		if res.C != res.ExpC || res.K != res.ExpK {
			return nil, fail("c93-check", "drawn check characters C=%d K=%d, computed C=%d K=%d", res.C, res.K, res.ExpC, res.ExpK)
		}
	}
	res.Values = append([]int{}, data...)
	return res, nil
}

// Code93Text renders values with the library's rune convention (FNC placeholders).
func Code93Text(vals []int) string {
	var out []rune
	for _, v := range vals {
		out = append(out, Code93Char(v))
	}
	return string(out)
}

// Code93FullASCII resolves ($)(%)(/)(+) shift pairs.
func Code93FullASCII(vals []int) (string, error) {
	var out []byte
	for i := 0; i < len(vals); i++ {
		v := vals[i]
		if v < 43 {
			out = append(out, code39Alphabet[v])
			continue
		}
		if i+1 >= len(vals) {
			return "", fail("c93-fullascii", "dangling shift value %d", v)
		}
		nv := vals[i+1]
		i++
		if nv < 10 || nv > 35 {
			return "", fail("c93-fullascii", "shift %d followed by value %d", v, nv)
		}
		k := nv - 10
		switch v {
		case 43: // ($)
			out = append(out, byte(1+k))
		case 46: // (+)
			out = append(out, byte('a'+k))
		case 45: // (/)
			switch {
			case k <= 14:
				out = append(out, byte(33+k))
			case k == 25:
				out = append(out, ':')
			default:
				return "", fail("c93-fullascii", "undefined pair (/)%c", 'A'+k)
			}
		case 44: // (%)
			switch {
			case k <= 4:
				out = append(out, byte(27+k))
			case k <= 9:
				out = append(out, byte(59+k-5))
			case k <= 14:
				out = append(out, byte(91+k-10))
			case k <= 19:
				out = append(out, byte(123+k-15))
			case k == 20:
				out = append(out, 0)
			case k == 21:
				out = append(out, '@')
			case k == 22:
				out = append(out, '`')
			default:
				out = append(out, 127)
			}
		}
	}
	return string(out), nil
}

// ---------------------------------------------------------------- Codabar

var codabarElements = map[byte]string{
	'0': "0000011", '1': "0000110", '2': "0001001", '3': "1100000", '4': "0010010",
	'5': "1000010", '6': "0100001", '7': "0100100", '8': "0110000", '9': "1001000",
	'-': "0001100", '$': "0011000", ':': "1000101", '/': "1010001", '.': "1010100",
	'+': "0010101", 'A': "0011010", 'B': "0101001", 'C': "0001011", 'D': "0001110",
}
var codabarByElements map[string]byte

func init() {
	codabarByElements = map[string]byte{}
	for c, e := range codabarElements {
		codabarByElements[e] = c
	}
}

func DecodeCodabar(bits []bool) (string, error) {
	r, err := runs(bits)
	if err != nil {
		return "", err
	}
	if (len(r)+1)%8 != 0 {
		return "", fail("codabar-elements", "%d elements is not 8k-1", len(r))
	}
	cl, _, err := classify(r, "codabar")
	if err != nil {
		return "", err
	}
	var out []byte
	for i := 0; i < len(cl); i += 8 {
		var e [7]byte
		for j := 0; j < 7; j++ {
			e[j] = byte('0' + cl[i+j])
		}
		ch, ok := codabarByElements[string(e[:])]
		if !ok {
			return "", fail("codabar-pattern", "character %d elements %s not in the Codabar table", i/8, e[:])
		}
		out = append(out, ch)
		if i+7 < len(cl) && cl[i+7] != 0 {
			return "", fail("codabar-gap", "inter-character gap after character %d is wide", i/8)
		}
	}
	isSS := func(c byte) bool { return c >= 'A' && c <= 'D' }
	if len(out) < 2 || !isSS(out[0]) || !isSS(out[len(out)-1]) {
		return "", fail("codabar-startstop", "no start/stop letters around %q", out)
	}
	for _, c := range out[1 : len(out)-1] {
		if isSS(c) {
			return "", fail("codabar-inner-startstop", "start/stop letter inside %q", out)
		}
	}
	return string(out), nil
}

// ---------------------------------------------------------------- 2 of 5

func twoOfFiveDigit(e string) int {
	for d, p := range twoOfFive {
		if p == e {
			return d
		}
	}
	return -1
}

// DecodeTwoOfFive reads standard (industrial) or interleaved 2 of 5.
func DecodeTwoOfFive(bits []bool, interleaved bool) (string, error) {
	r, err := runs(bits)
	if err != nil {
		return "", err
	}
	var out []byte
	if !interleaved {
		// start 11011010, stop 1101011; every data bar is followed by a narrow space
		s := bitString(bits)
		if len(s) < 15 || s[:8] != "11011010" || s[len(s)-7:] != "1101011" {
			return "", fail("2of5-startstop", "start/stop pattern wrong")
		}
		body := r[6 : len(r)-5]
		if len(body)%10 != 0 {
			return "", fail("2of5-elements", "%d data elements is not a multiple of 10", len(body))
		}
		cl, _, err := classify(body, "2of5")
		if err != nil {
			return "", err
		}
		for i := 0; i < len(cl); i += 10 {
			var e [5]byte
			for j := 0; j < 5; j++ {
				e[j] = byte('0' + cl[i+2*j])
				if cl[i+2*j+1] != 0 {
					return "", fail("2of5-space", "wide space in standard 2 of 5")
				}
			}
			d := twoOfFiveDigit(string(e[:]))
			if d < 0 {
				return "", fail("2of5-pattern", "bars %s are not a 2 of 5 digit", e[:])
			}
			out = append(out, byte('0'+d))
		}
		return string(out), nil
	}
	// interleaved: start n n n n, stop W n n
	if len(r) < 7 {
		return "", fail("itf-short", "too few elements")
	}
	cl, _, err := classify(r, "itf")
	if err != nil {
		return "", err
	}
	if cl[0] != 0 || cl[1] != 0 || cl[2] != 0 || cl[3] != 0 {
		return "", fail("itf-start", "start pattern is not four narrow elements")
	}
	m := len(cl)
	if cl[m-3] != 1 || cl[m-2] != 0 || cl[m-1] != 0 {
		return "", fail("itf-stop", "stop pattern is not wide-narrow-narrow")
	}
	body := cl[4 : m-3]
	if len(body)%10 != 0 {
		return "", fail("itf-elements", "%d data elements is not a multiple of 10", len(body))
	}
	for i := 0; i < len(body); i += 10 {
		var a, b [5]byte
		for j := 0; j < 5; j++ {
			a[j] = byte('0' + body[i+2*j])
			b[j] = byte('0' + body[i+2*j+1])
		}
		d1, d2 := twoOfFiveDigit(string(a[:])), twoOfFiveDigit(string(b[:]))
		if d1 < 0 || d2 < 0 {
			return "", fail("itf-pattern", "bars %s / spaces %s are not 2 of 5 digits", a[:], b[:])
		}
		out = append(out, byte('0'+d1), byte('0'+d2))
	}
	return string(out), nil
}

// Mod10Weighted31 returns the check digit that makes the 3-1 weighted sum (from the
// right, check digit weight 1) a multiple of ten.
func Mod10Weighted31(digits string) int { return GS1CheckDigit(digits) }

// ---------------------------------------------------------------- full-ASCII expansion (encoder direction)

// fullASCIIPair returns the shift character class ('$','%','/','+' or 0 for "direct")
// and the letter for an ASCII character, per the Code 39 / Code 93 full-ASCII tables.
func fullASCIIPair(c byte) (shift byte, letter byte) {
	switch {
	case c == 0:
		return '%', 'U'
	case c >= 1 && c <= 26:
		return '$', 'A' + c - 1
	case c >= 27 && c <= 31:
		return '%', 'A' + c - 27
	case c == ' ' || c == '-' || c == '.' || (c >= '0' && c <= '9') || (c >= 'A' && c <= 'Z'):
		return 0, c
	case c >= '!' && c <= ',':
		return '/', 'A' + c - '!'
	case c == '/':
		return '/', 'O'
	case c == ':':
		return '/', 'Z'
	case c >= ';' && c <= '?':
		return '%', 'F' + c - ';'
	case c == '@':
		return '%', 'V'
	case c >= '[' && c <= '_':
		return '%', 'K' + c - '['
	case c == '`':
		return '%', 'W'
	case c >= 'a' && c <= 'z':
		return '+', 'A' + c - 'a'
	case c >= '{' && c <= 127:
		return '%', 'P' + c - '{'
	}
	return 0, c
}

// Code39Expand spells an ASCII text in the 43-character alphabet.
func Code39Expand(s string) string {
	var out []byte
	for i := 0; i < len(s); i++ {
		sh, l := fullASCIIPair(s[i])
		if sh != 0 {
			out = append(out, sh)
		}
		out = append(out, l)
	}
	return string(out)
}

// Code93Expand spells an ASCII text with the library's runes for ($)(%)(/)(+).
func Code93Expand(s string) string {
	var out []rune
	for i := 0; i < len(s); i++ {
		sh, l := fullASCIIPair(s[i])
		switch sh {
		case '$':
			out = append(out, 0xf1)
		case '%':
			out = append(out, 0xf2)
		case '/':
			out = append(out, 0xf3)
		case '+':
			out = append(out, 0xf4)
		}
		out = append(out, rune(l))
	}
	return string(out)
}

// Code39CheckChar returns the modulo-43 check character of a basic-alphabet text
// (0 if a character is outside the alphabet).
func Code39CheckChar(text string) byte {
	t := 0
	for i := 0; i < len(text); i++ {
		v := Code39Value(text[i])
		if v < 0 {
			return 0
		}
		t += v
	}
	return code39Alphabet[t%43]
}

// Code93CheckChars returns the check characters C and K of a text over the 47 Code 93
// characters (the four special ones written U+00F1..U+00F4); ok is false if a rune is
// outside that set.
func Code93CheckChars(text string) (c, k rune, ok bool) {
	var vals []int
	for _, r := range text {
		switch {
		case r >= 0xf1 && r <= 0xf4:
			vals = append(vals, 43+int(r-0xf1))
		case r < 128 && Code39Value(byte(r)) >= 0:
			vals = append(vals, Code39Value(byte(r)))
		default:
			return 0, 0, false
		}
	}
	cv := code93Check(vals, 20)
	kv := code93Check(append(vals, cv), 15)
	return Code93Char(cv), Code93Char(kv), true
}
