package refdec

// Reference Data Matrix ECC 200 reader for the 24 square symbol sizes of
// ISO/IEC 16022: finder/clock tracks of every region, Annex F placement (utah shape,
// four corner cases, fixed lower-right pattern), block-interleaved Reed–Solomon
// (syndromes only), ASCII encodation with upper shift and 253-state pads.

type dmSize struct {
	Size    int // modules per side
	Regions int // data regions per side
	ECC     int // check codewords
	Blocks  int
}

var dmSizes = []dmSize{
	{10, 1, 5, 1}, {12, 1, 7, 1}, {14, 1, 10, 1}, {16, 1, 12, 1}, {18, 1, 14, 1}, {20, 1, 18, 1},
	{22, 1, 20, 1}, {24, 1, 24, 1}, {26, 1, 28, 1}, {32, 2, 36, 1}, {36, 2, 42, 1}, {40, 2, 48, 1},
	{44, 2, 56, 1}, {48, 2, 68, 1}, {52, 2, 84, 2}, {64, 4, 112, 2}, {72, 4, 144, 4}, {80, 4, 192, 4},
	{88, 4, 224, 4}, {96, 4, 272, 4}, {104, 4, 336, 6}, {120, 6, 408, 6}, {132, 6, 496, 8}, {144, 6, 620, 10},
}

func (s dmSize) mapping() int { return s.Size - 2*s.Regions }
func (s dmSize) DataCW() int  { return s.mapping()*s.mapping()/8 - s.ECC }
func (s dmSize) TotalCW() int { return s.mapping() * s.mapping() / 8 }
func (s dmSize) region() int  { return s.mapping() / s.Regions }

// DMSmallestSize returns the side length of the smallest square symbol holding n data
// codewords (0 if none).
func DMSmallestSize(n int) int {
	for _, s := range dmSizes {
		if s.DataCW() >= n {
			return s.Size
		}
	}
	return 0
}

// DMCapacities lists (size, data codewords) of the 24 symbols.
func DMCapacities() [][2]int {
	var out [][2]int
	for _, s := range dmSizes {
		out = append(out, [2]int{s.Size, s.DataCW()})
	}
	return out
}

func DMEccCount(size int) int {
	for _, s := range dmSizes {
		if s.Size == size {
			return s.ECC
		}
	}
	return -1
}

// DMAsciiCodewords is the length of the ASCII encodation of the content: digit pairs
// take one codeword, bytes >= 128 two, everything else one.
func DMAsciiCodewords(b []byte) int {
	n := 0
	for i := 0; i < len(b); i++ {
		c := b[i]
		switch {
		case c >= '0' && c <= '9' && i+1 < len(b) && b[i+1] >= '0' && b[i+1] <= '9':
			n++
			i++
		case c >= 128:
			n += 2
		default:
			n++
		}
	}
	return n
}

// dmPlacement returns for every module of the nrow x ncol mapping matrix the value
// 10*codeword+bit (codeword from 1, bit 1 = most significant), or 1 for the fixed
// pattern's dark modules and 0 for its light ones.
func dmPlacement(nrow, ncol int) ([]int, map[string]int) {
	arr := make([]int, nrow*ncol)
	corners := map[string]int{}
	module := func(row, col, chr, bit int) {
		if row < 0 {
			row += nrow
			col += 4 - (nrow+4)%8
		}
		if col < 0 {
			col += ncol
			row += 4 - (ncol+4)%8
		}
		arr[row*ncol+col] = 10*chr + bit
	}
	utah := func(row, col, chr int) {
		module(row-2, col-2, chr, 1)
		module(row-2, col-1, chr, 2)
		module(row-1, col-2, chr, 3)
		module(row-1, col-1, chr, 4)
		module(row-1, col, chr, 5)
		module(row, col-2, chr, 6)
		module(row, col-1, chr, 7)
		module(row, col, chr, 8)
	}
	chr, row, col := 1, 4, 0
	for {
		if row == nrow && col == 0 {
			module(nrow-1, 0, chr, 1)
			module(nrow-1, 1, chr, 2)
			module(nrow-1, 2, chr, 3)
			module(0, ncol-2, chr, 4)
			module(0, ncol-1, chr, 5)
			module(1, ncol-1, chr, 6)
			module(2, ncol-1, chr, 7)
			module(3, ncol-1, chr, 8)
			chr++
			corners["corner1"]++
		}
		if row == nrow-2 && col == 0 && ncol%4 != 0 {
			module(nrow-3, 0, chr, 1)
			module(nrow-2, 0, chr, 2)
			module(nrow-1, 0, chr, 3)
			module(0, ncol-4, chr, 4)
			module(0, ncol-3, chr, 5)
			module(0, ncol-2, chr, 6)
			module(0, ncol-1, chr, 7)
			module(1, ncol-1, chr, 8)
			chr++
			corners["corner2"]++
		}
		if row == nrow-2 && col == 0 && ncol%8 == 4 {
			module(nrow-3, 0, chr, 1)
			module(nrow-2, 0, chr, 2)
			module(nrow-1, 0, chr, 3)
			module(0, ncol-2, chr, 4)
			module(0, ncol-1, chr, 5)
			module(1, ncol-1, chr, 6)
			module(2, ncol-1, chr, 7)
			module(3, ncol-1, chr, 8)
			chr++
			corners["corner3"]++
		}
		if row == nrow+4 && col == 2 && ncol%8 == 0 {
			module(nrow-1, 0, chr, 1)
			module(nrow-1, ncol-1, chr, 2)
			module(0, ncol-3, chr, 3)
			module(0, ncol-2, chr, 4)
			module(0, ncol-1, chr, 5)
			module(1, ncol-3, chr, 6)
			module(1, ncol-2, chr, 7)
			module(1, ncol-1, chr, 8)
			chr++
			corners["corner4"]++
		}
		for {
			if row < nrow && col >= 0 && arr[row*ncol+col] == 0 {
				utah(row, col, chr)
				chr++
			}
			row -= 2
			col += 2
			if !(row >= 0 && col < ncol) {
				break
			}
		}
		row++
		col += 3
		for {
			if row >= 0 && col < ncol && arr[row*ncol+col] == 0 {
				utah(row, col, chr)
				chr++
			}
			row += 2
			col -= 2
			if !(row < nrow && col >= 0) {
				break
			}
		}
		row += 3
		col++
		if !(row < nrow || col < ncol) {
			break
		}
	}
	if arr[nrow*ncol-1] == 0 {
		arr[nrow*ncol-1] = 1
		arr[nrow*ncol-ncol-2] = 1
		corners["fixed-pattern"]++
	}
	return arr, corners
}

type DMResult struct {
	Size       int
	Regions    int
	Blocks     int
	EccCount   int
	DataCW     []int
	Payload    []byte
	Pads       int
	Corners    map[string]int
	Interleave string // "single", "round-robin" or "continued" (144x144 only differs)
	UpperShift int
	DigitPairs int
}

func DecodeDataMatrix(g *Grid) (*DMResult, error) {
	if g.W != g.H {
		return nil, fail("dm-size", "symbol is %dx%d: not one of the 24 square sizes", g.W, g.H)
	}
	var sz *dmSize
	for i := range dmSizes {
		if dmSizes[i].Size == g.W {
			sz = &dmSizes[i]
		}
	}
	if sz == nil {
		return nil, fail("dm-size", "%d modules per side is not a standard ECC 200 square size", g.W)
	}
	rs := sz.region()
	blk := rs + 2
	// finder and clock track of every region
	for y := 0; y < sz.Size; y++ {
		for x := 0; x < sz.Size; x++ {
			bx, by := x%blk, y%blk
			var want, is bool
			switch {
			case bx == 0:
				want, is = true, true
			case by == blk-1:
				want, is = true, true
			case by == 0:
				want, is = bx%2 == 0, true
			case bx == blk-1:
				want, is = by%2 == 1, true
			}
			if is && g.At(x, y) != want {
				what := "clock track"
				rule := "dm-clock"
				if bx == 0 || by == blk-1 {
					what, rule = "solid finder", "dm-finder"
				}
				return nil, fail(rule, "%s module (%d,%d) of region (%d,%d) is dark=%v", what, x, y, x/blk, y/blk, g.At(x, y))
			}
		}
	}
	n := sz.mapping()
	place, corners := dmPlacement(n, n)
	total := sz.TotalCW()
	cw := make([]int, total)
	seen := make([]int, total)
	for row := 0; row < n; row++ {
		for col := 0; col < n; col++ {
			x := col + 2*(col/rs) + 1
			y := row + 2*(row/rs) + 1
			dark := g.At(x, y)
			p := place[row*n+col]
			switch {
			case p == 0:
				if dark {
					return nil, fail("dm-fixed-pattern", "unused module (row %d, col %d) of the lower-right pattern is dark", row, col)
				}
			case p == 1:
				if !dark {
					return nil, fail("dm-fixed-pattern", "module (row %d, col %d) of the lower-right pattern is light", row, col)
				}
			default:
				ch, bit := p/10-1, p%10
				if ch >= total {
					return nil, fail("dm-placement", "placement refers to codeword %d of %d", ch+1, total)
				}
				seen[ch]++
				if dark {
					cw[ch] |= 1 << uint(8-bit)
				}
			}
		}
	}
	for i, s := range seen {
		if s != 8 {
			return nil, fail("dm-placement", "codeword %d has %d modules", i+1, s)
		}
	}
	nd := sz.DataCW()
	data, ecc := cw[:nd], cw[nd:]
	res := &DMResult{Size: sz.Size, Regions: sz.Regions, Blocks: sz.Blocks, EccCount: sz.ECC, Corners: corners, DataCW: append([]int{}, data...)}
	eccPer := sz.ECC / sz.Blocks
	check := func(shift int) (bool, int, int) {
		for b := 0; b < sz.Blocks; b++ {
			var blkcw []int
			for i := b; i < nd; i += sz.Blocks {
				blkcw = append(blkcw, data[i])
			}
			for i := 0; i < len(ecc); i++ {
				if (i+shift)%sz.Blocks == b {
					blkcw = append(blkcw, ecc[i])
				}
			}
			if ok, e := GF256D.SyndromesZero(blkcw, 1, eccPer); !ok {
				return false, b, e
			}
		}
		return true, 0, 0
	}
	ok, badBlock, badExp := check(0)
	res.Interleave = "round-robin"
	if sz.Blocks == 1 {
		res.Interleave = "single"
	}
	if !ok && nd%sz.Blocks != 0 {
		// 144x144: the check-codeword interleave may continue the data round-robin
		if ok2, _, _ := check(nd % sz.Blocks); ok2 {
			ok = true
			res.Interleave = "continued"
		}
	}
	if !ok {
		return nil, fail("dm-rs-block", "interleaved block %d of %d (size %d) is not a Reed-Solomon codeword: syndrome at alpha^%d non-zero", badBlock, sz.Blocks, sz.Size, badExp)
	}
	// ASCII encodation
	i := 0
	for i < nd {
		v := data[i]
		switch {
		case v >= 1 && v <= 128:
			res.Payload = append(res.Payload, byte(v-1))
			i++
		case v == 129:
			// end of data: the rest must be randomised pads
			res.Pads = nd - i
			for j := i + 1; j < nd; j++ {
				r := (149*(j+1))%253 + 1
				w := 129 + r
				if w > 254 {
					w -= 254
				}
				if data[j] != w {
					return nil, fail("dm-pad", "pad codeword at position %d is %d, 253-state randomisation gives %d", j+1, data[j], w)
				}
			}
			i = nd
		case v >= 130 && v <= 229:
			d := v - 130
			res.Payload = append(res.Payload, byte('0'+d/10), byte('0'+d%10))
			res.DigitPairs++
			i++
		case v == 235:
			if i+1 >= nd {
				return nil, fail("dm-upper-shift", "upper shift is the last data codeword")
			}
			nv := data[i+1]
			if nv < 1 || nv > 128 {
				return nil, fail("dm-upper-shift", "upper shift followed by codeword %d", nv)
			}
			res.Payload = append(res.Payload, byte(nv-1+128))
			res.UpperShift++
			i += 2
		default:
			return nil, fail("dm-nonascii-codeword", "codeword %d at position %d is not part of the ASCII encodation scheme", v, i+1)
		}
	}
	return res, nil
}
