package refdec

import (
	"encoding/json"
	"os"
	"testing"
)

// TestCrossQR validates the reference reader against symbols produced by an
// independent encoder (the JavaScript QRCode generator vendored with npm's
// qrcode-terminal): run tools/crosscheck_qr.sh, which generates the matrices.
func TestCrossQR(t *testing.T) {
	path := os.Getenv("CROSSQR")
	if path == "" {
		t.Skip("CROSSQR not set")
	}
	b, err := os.ReadFile(path)
	if err != nil {
		t.Fatal(err)
	}
	var cases []struct {
		Ver   int      `json:"ver"`
		Level string   `json:"level"`
		Text  string   `json:"text"`
		N     int      `json:"n"`
		Rows  []string `json:"rows"`
	}
	if err := json.Unmarshal(b, &cases); err != nil {
		t.Fatal(err)
	}
	ok, bad := 0, 0
	masks := map[int]bool{}
	for _, c := range cases {
		g := NewGrid(c.N, c.N)
		for y, row := range c.Rows {
			for x := range row {
				g.Dark[y*c.N+x] = row[x] == '1'
			}
		}
		res, err := DecodeQR(g)
		if err != nil {
			bad++
			t.Errorf("version %d level %s (%d bytes): %v", c.Ver, c.Level, len(c.Text), err)
			continue
		}
		if string(res.Payload) != c.Text || res.Version != c.Ver || "LMQH"[res.Level] != c.Level[0] {
			bad++
			t.Errorf("version %d level %s: decoded version %d level %c payload match %v", c.Ver, c.Level, res.Version, "LMQH"[res.Level], string(res.Payload) == c.Text)
			continue
		}
		masks[res.Mask] = true
		ok++
	}
	t.Logf("independent encoder: %d symbols decoded to their text, %d failed, masks seen %d", ok, bad, len(masks))
}
