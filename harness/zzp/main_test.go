package zzp
import ("testing";"image/color";"github.com/boombuler/barcode/pdf417";"verifharness/refdec")
func TestX(t *testing.T){
  for _, s := range []string{"\x01\x80\x00\x00\x7f\x01\x01\x80\x00\x00\x01\xff\xff})M#=*3.##7:kqenHRAPNSFBHUNVNDKBWZSLPOQURMFICLUQVKLKMZUEWJO XLBQXVXCKS", "})M#=*3.##7:kqenHRAPNSFBHUNVNDKBWZSLPOQURMFICLUQVKLKMZUEWJO XLBQXVXCKS", "kqenHRAPNSFBHUNVNDKBWZSLPOQURMFICLUQVKLKMZUEWJO XLBQXVXCKS", "HRAPNSFBHUNVNDKBWZSLPOQURMFICLUQVKLKMZUEWJO XLBQXVXCKS", "\x01HRAPNSFBHUNVNDKBWZSLPOQURMFICLUQVKLKMZUEWJO", "\x01\x02HRAPNSFBHUNVNDKBWZSLPOQURMFICLUQVKLKMZUEWJO"} {
    bc, err := pdf417.Encode(s, 0)
    if err != nil { t.Fatal(err) }
    bd := bc.Bounds(); g := refdec.NewGrid(bd.Dx(), bd.Dy())
    for y:=0;y<bd.Dy();y++{ for x:=0;x<bd.Dx();x++{ if bc.At(x,y)==color.Black { g.Dark[y*g.W+x]=true } } }
    res, err := refdec.DecodePDF417(g)
    if err != nil { t.Fatal(err) }
    t.Logf("n=%d lib=%d simple=%d feat=%v\n data=%v", len(s), res.NumData-1-res.TrailingPads, refdec.PDFSimpleCodewords([]byte(s)), res.Features, res.Codewords[1:res.NumData])
  }
}
