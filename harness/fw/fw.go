// Package fw is the common runtime-monitoring framework: work units, the per-worker
// monitoring context (counters, coverage tallies, violations, samples, write-ahead
// log), and the registry of properties.
package fw

import (
	"bufio"
	"encoding/hex"
	"encoding/json"
	"fmt"
	"hash/fnv"
	"math/rand"
	"os"
	"runtime"
	"sort"
	"strings"
)

// Unit is one planned piece of work: either a single call or a compact descriptor of
// a batch (e.g. an enumeration range) that Exec expands itself.
type Unit struct {
	Fn  string  `json:"fn"`
	S   string  `json:"s,omitempty"` // hex of the string / byte-slice argument
	I   []int64 `json:"i,omitempty"`
	Tag string  `json:"tag,omitempty"`
}

func U(fn string, s []byte, tag string, ints ...int64) Unit {
	return Unit{Fn: fn, S: hex.EncodeToString(s), I: ints, Tag: tag}
}

func (u *Unit) Bytes() []byte {
	b, err := hex.DecodeString(u.S)
	if err != nil {
		panic("bad unit hex: " + err.Error())
	}
	return b
}

func (u *Unit) Int(i int) int64 {
	if i < len(u.I) {
		return u.I[i]
	}
	return 0
}

func (u *Unit) Hash() uint64 {
	h := fnv.New64a()
	h.Write([]byte(u.Fn))
	h.Write([]byte{0})
	h.Write([]byte(u.S))
	for _, v := range u.I {
		fmt.Fprintf(h, "|%d", v)
	}
	return h.Sum64()
}

// Violation is one observed refutation of the property.
type Violation struct {
	Key    string `json:"key"` // finding class: entry point + failing input class
	Msg    string `json:"msg"`
	Unit   Unit   `json:"unit"`
	Inner  string `json:"inner,omitempty"` // the specific inner case of a batch unit
	Detail string `json:"detail,omitempty"`
}

// Result is what a worker hands back to the parent.
type Result struct {
	Shard        int                         `json:"shard"`
	Units        int64                       `json:"units"`
	Evals        int64                       `json:"evals"`
	Nontrivial   int64                       `json:"nontrivial"`
	Cov          map[string]map[string]int64 `json:"cov"`
	Violations   []Violation                 `json:"violations"`
	ViolCounts   map[string]int64            `json:"viol_counts"`
	Samples      []json.RawMessage           `json:"samples"`
	Inconclusive []string                    `json:"inconclusive,omitempty"`
	Extra        map[string]int64            `json:"extra,omitempty"`
}

// Ctx is the monitoring context inside one worker process.
type Ctx struct {
	Prop string
	Tier string
	Seed int64
	Fine bool // write a WAL record for every inner step of a batch unit

	res     Result
	seen    map[uint64]struct{}
	cur     *Unit
	wal     *bufio.Writer
	walFile *os.File
	rng     *rand.Rand
	nsample int64
}

const maxViolPerKey = 5
const maxViolTotal = 200

func NewCtx(prop, tier string, seed int64, shard int, walPath string) (*Ctx, error) {
	c := &Ctx{Prop: prop, Tier: tier, Seed: seed}
	c.res.Shard = shard
	c.res.Cov = map[string]map[string]int64{}
	c.res.ViolCounts = map[string]int64{}
	c.res.Extra = map[string]int64{}
	c.seen = map[uint64]struct{}{}
	c.rng = rand.New(rand.NewSource(seed*7919 + int64(shard)))
	if walPath != "" {
		f, err := os.Create(walPath)
		if err != nil {
			return nil, err
		}
		c.walFile = f
		c.wal = bufio.NewWriterSize(f, 1<<16)
	}
	return c, nil
}

// Begin records the unit in the write-ahead log before anything is executed.
func (c *Ctx) Begin(idx int, u *Unit) {
	c.cur = u
	c.res.Units++
	if c.wal != nil {
		b, _ := json.Marshal(u)
		fmt.Fprintf(c.wal, "U %d %s\n", idx, b)
		c.wal.Flush() // write(2): survives death of this process
	}
}

// Step records an inner step of a batch unit (only in fine mode).
func (c *Ctx) Step(desc func() string) {
	if c.Fine && c.wal != nil {
		fmt.Fprintf(c.wal, "S %s\n", desc())
		c.wal.Flush()
	}
}

func (c *Ctx) Done(idx int) {
	if c.wal != nil {
		fmt.Fprintf(c.wal, "D %d\n", idx)
		c.wal.Flush()
	}
}

func (c *Ctx) Eval() { c.res.Evals++ }

// Nontrivial counts a case on which the full oracle ran to a verdict; key identifies
// the case so that duplicates are counted once.
func (c *Ctx) Nontrivial(key ...any) {
	h := fnv.New64a()
	for _, k := range key {
		switch v := k.(type) {
		case []byte:
			h.Write(v)
		case string:
			h.Write([]byte(v))
		default:
			fmt.Fprintf(h, "%v", v)
		}
		h.Write([]byte{0xff})
	}
	s := h.Sum64()
	if _, ok := c.seen[s]; ok {
		return
	}
	c.seen[s] = struct{}{}
	c.res.Nontrivial++
}

// NontrivialUnique counts a case that is distinct by construction (enumerations).
func (c *Ctx) NontrivialUnique() { c.res.Nontrivial++ }

func (c *Ctx) Cover(dim, val string) {
	m := c.res.Cov[dim]
	if m == nil {
		m = map[string]int64{}
		c.res.Cov[dim] = m
	}
	m[val]++
}

func (c *Ctx) CoverN(dim string, val int) { c.Cover(dim, fmt.Sprintf("%d", val)) }

func (c *Ctx) Extra(name string, delta int64) { c.res.Extra[name] += delta }
func (c *Ctx) ExtraMax(name string, v int64) {
	if v > c.res.Extra[name] {
		c.res.Extra[name] = v
	}
}

func (c *Ctx) Violation(key, msg, inner, detail string) {
	c.res.ViolCounts[key]++
	if c.res.ViolCounts[key] > maxViolPerKey || len(c.res.Violations) >= maxViolTotal {
		return
	}
	v := Violation{Key: key, Msg: msg, Inner: inner, Detail: detail}
	if c.cur != nil {
		v.Unit = *c.cur
	}
	c.res.Violations = append(c.res.Violations, v)
}

func (c *Ctx) Inconclusive(msg string) {
	if len(c.res.Inconclusive) < 20 {
		c.res.Inconclusive = append(c.res.Inconclusive, msg)
	}
}

// Sample keeps the first three and a reservoir of three more cases verbatim.
func (c *Ctx) Sample(v any) {
	c.nsample++
	b, err := json.Marshal(v)
	if err != nil {
		return
	}
	if len(c.res.Samples) < 6 {
		c.res.Samples = append(c.res.Samples, b)
		return
	}
	j := c.rng.Int63n(c.nsample)
	if j < 3 {
		c.res.Samples[3+j] = b
	}
}

func (c *Ctx) Rand() *rand.Rand { return c.rng }

func (c *Ctx) Finish(path string) error {
	if c.wal != nil {
		c.wal.Flush()
		c.walFile.Close()
	}
	b, err := json.Marshal(&c.res)
	if err != nil {
		return err
	}
	return os.WriteFile(path, b, 0o644)
}

func (c *Ctx) Res() *Result { return &c.res }

// Property is one monitored property.
type Property interface {
	ID() string
	// Gen returns the deterministic unit list for (tier, seed).
	Gen(tier string, seed int64) []Unit
	// Exec runs the real library on the unit and feeds the monitors.
	Exec(c *Ctx, u *Unit)
	// Rule describes generation and the non-triviality rule for the evidence file.
	Rule() string
}

var registry = map[string]Property{}

func Register(p Property)    { registry[p.ID()] = p }
func Get(id string) Property { return registry[id] }
func IDs() []string {
	var ids []string
	for k := range registry {
		ids = append(ids, k)
	}
	sort.Strings(ids)
	return ids
}

// Call runs f and converts a panic on this goroutine into a value and a stack.
func Call(f func()) (pv any, stack string) {
	defer func() {
		if r := recover(); r != nil {
			pv = r
			buf := make([]byte, 16<<10)
			buf = buf[:runtime.Stack(buf, false)]
			stack = string(buf)
		}
	}()
	f()
	return nil, ""
}

// LibFrameInPanic reports whether a recovered stack runs through the library.
func LibFrame(stack string) bool {
	return strings.Contains(stack, "github.com/boombuler/barcode")
}

// LibraryGoroutines returns the goroutines (from a full stack dump) that were started
// by or are running in the library, split into blocked ones and others.
func LibraryGoroutines() (blocked, running []string) {
	buf := make([]byte, 1<<20)
	for {
		n := runtime.Stack(buf, true)
		if n < len(buf) {
			buf = buf[:n]
			break
		}
		buf = make([]byte, 2*len(buf))
	}
	for _, g := range strings.Split(string(buf), "\n\n") {
		if !strings.Contains(g, "github.com/boombuler/barcode") {
			continue
		}
		// the goroutine that is taking the dump is never a library goroutine
		if strings.Contains(g, "fw.LibraryGoroutines") {
			continue
		}
		head := g
		if i := strings.IndexByte(g, '\n'); i >= 0 {
			head = g[:i]
		}
		if strings.Contains(head, "chan send") || strings.Contains(head, "chan receive") ||
			strings.Contains(head, "select") || strings.Contains(head, "semacquire") ||
			strings.Contains(head, "sync.") {
			blocked = append(blocked, g)
		} else {
			running = append(running, g)
		}
	}
	return
}

// LeakVerdict waits (by yielding, not by the clock) until every library goroutine has
// ended or is blocked; with all callers returned a blocked library goroutine has no
// partner left: a state-based leak verdict.
func LeakVerdict() (leaked []string, spinning []string) {
	for i := 0; i < 10000; i++ {
		b, r := LibraryGoroutines()
		if len(r) == 0 {
			if len(b) == 0 {
				return nil, nil
			}
			// blocked ones: confirm they stay blocked over a few more yields
			for j := 0; j < 50; j++ {
				runtime.Gosched()
			}
			b2, r2 := LibraryGoroutines()
			if len(r2) == 0 && len(b2) == len(b) {
				return b2, nil
			}
		}
		runtime.Gosched()
	}
	b, r := LibraryGoroutines()
	return b, r
}
