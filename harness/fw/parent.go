package fw

import (
	"bufio"
	"encoding/json"
	"fmt"
	"os"
	"os/exec"
	"path/filepath"
	"sort"
	"strconv"
	"strings"
	"sync"
	"syscall"
	"time"
)

// Parent drives worker processes for one (property, tier, seed) run.
type Parent struct {
	Prop           Property
	Tier           string
	Seed           int64
	Self           string // path of this binary
	RaceBin        string // path of the -race build (C16)
	VerifDir       string
	WorkDir        string
	Workers        int
	HangCPU        float64 // CPU seconds without WAL progress before a worker is dumped
	MaxRSSMiB      int64   // resident memory of one worker above which it is dumped and stopped
	Start          time.Time
	ExtraCov       map[string]any // property specific additions to coverage
	Assume         []string
	Trusted        []string
	Exhaustive     bool
	ExhaustiveNote string
}

// Optional interfaces a property may implement.
type CustomRunner interface {
	Run(p *Parent) *Result
}
type Finalizer interface {
	Finalize(p *Parent, merged *Result)
}
type Assumer interface {
	Assumptions() []string
}
type Replayer interface {
	Replay(p *Parent, v *Violation) int
}

// CPUSeconds returns user+system CPU time of a process (-1 if unknown).
func CPUSeconds(pid int) float64 { return cpuSeconds(pid) }

// rssMiB returns the resident set size of a process in MiB (-1 if unknown).
func rssMiB(pid int) int64 {
	b, err := os.ReadFile(fmt.Sprintf("/proc/%d/statm", pid))
	if err != nil {
		return -1
	}
	f := strings.Fields(string(b))
	if len(f) < 2 {
		return -1
	}
	pages, _ := strconv.ParseInt(f[1], 10, 64)
	return pages * int64(os.Getpagesize()) >> 20
}

func cpuSeconds(pid int) float64 {
	b, err := os.ReadFile(fmt.Sprintf("/proc/%d/stat", pid))
	if err != nil {
		return -1
	}
	s := string(b)
	i := strings.LastIndexByte(s, ')')
	if i < 0 {
		return -1
	}
	f := strings.Fields(s[i+1:])
	if len(f) < 14 {
		return -1
	}
	ut, _ := strconv.ParseFloat(f[11], 64)
	st, _ := strconv.ParseFloat(f[12], 64)
	return (ut + st) / 100.0
}

type workerRun struct {
	shard   int
	cmd     *exec.Cmd
	dir     string
	wal     string
	out     string
	errf    string
	lastWal int64
	cpuAt   float64
	done    chan error
	hung    bool
	bloated bool
	skip    []int
	crashes int
}

func mergeInto(dst *Result, src *Result) {
	dst.Units += src.Units
	dst.Evals += src.Evals
	dst.Nontrivial += src.Nontrivial
	if dst.Cov == nil {
		dst.Cov = map[string]map[string]int64{}
	}
	for d, m := range src.Cov {
		dm := dst.Cov[d]
		if dm == nil {
			dm = map[string]int64{}
			dst.Cov[d] = dm
		}
		for k, v := range m {
			dm[k] += v
		}
	}
	if dst.ViolCounts == nil {
		dst.ViolCounts = map[string]int64{}
	}
	for k, v := range src.ViolCounts {
		dst.ViolCounts[k] += v
	}
	dst.Violations = append(dst.Violations, src.Violations...)
	if len(dst.Samples) < 12 {
		dst.Samples = append(dst.Samples, src.Samples...)
	}
	dst.Inconclusive = append(dst.Inconclusive, src.Inconclusive...)
	if dst.Extra == nil {
		dst.Extra = map[string]int64{}
	}
	for k, v := range src.Extra {
		if strings.HasPrefix(k, "max_") {
			if v > dst.Extra[k] {
				dst.Extra[k] = v
			}
		} else {
			dst.Extra[k] += v
		}
	}
}

// MergeInto is exported for custom runners.
func MergeInto(dst, src *Result) { mergeInto(dst, src) }

func (p *Parent) startWorker(w *workerRun, extra ...string) error {
	args := []string{"worker", "-prop", p.Prop.ID(), "-tier", p.Tier, "-seed", fmt.Sprint(p.Seed),
		"-shard", fmt.Sprint(w.shard), "-nshards", fmt.Sprint(p.Workers), "-dir", w.dir}
	if len(w.skip) > 0 {
		var s []string
		for _, v := range w.skip {
			s = append(s, fmt.Sprint(v))
		}
		args = append(args, "-skip", strings.Join(s, ","))
	}
	args = append(args, extra...)
	cmd := exec.Command(p.Self, args...)
	ef, err := os.Create(w.errf)
	if err != nil {
		return err
	}
	cmd.Stdout = ef
	cmd.Stderr = ef
	cmd.Env = append(os.Environ(), "GOTRACEBACK=all")
	if err := cmd.Start(); err != nil {
		ef.Close()
		return err
	}
	ef.Close()
	w.cmd = cmd
	w.lastWal = -1
	w.cpuAt = 0
	w.done = make(chan error, 1)
	go func() { w.done <- cmd.Wait() }()
	return nil
}

func lastOpenUnit(walPath string) (idx int, unit *Unit, lastStep string) {
	f, err := os.Open(walPath)
	if err != nil {
		return -1, nil, ""
	}
	defer f.Close()
	idx = -1
	sc := bufio.NewScanner(f)
	sc.Buffer(make([]byte, 1<<20), 1<<26)
	for sc.Scan() {
		ln := sc.Text()
		switch {
		case strings.HasPrefix(ln, "U "):
			rest := ln[2:]
			sp := strings.IndexByte(rest, ' ')
			if sp < 0 {
				continue
			}
			i, _ := strconv.Atoi(rest[:sp])
			var u Unit
			if json.Unmarshal([]byte(rest[sp+1:]), &u) == nil {
				idx, unit, lastStep = i, &u, ""
			}
		case strings.HasPrefix(ln, "S "):
			lastStep = ln[2:]
		case strings.HasPrefix(ln, "D "):
			idx, unit, lastStep = -1, nil, ""
		}
	}
	return
}

func tailFile(path string, n int) string {
	b, err := os.ReadFile(path)
	if err != nil {
		return ""
	}
	if len(b) > n {
		b = b[len(b)-n:]
	}
	return string(b)
}

func headFile(path string, n int) string {
	b, err := os.ReadFile(path)
	if err != nil {
		return ""
	}
	if len(b) > n {
		b = b[:n]
	}
	return string(b)
}

// RunWorkers executes the property's unit list in sharded worker processes and
// returns the merged result.  Crashes and hangs of a worker are diagnosed from the
// write-ahead log and turned into violations (or inconclusive notes).
// waitFine waits for a fine-mode re-run of one unit: until it ends, or until it has
// used half the hang budget of CPU time without logging a step, or two minutes.
func (p *Parent) waitFine(fw *workerRun) {
	deadline := time.Now().Add(2 * time.Minute)
	var lastWal int64 = -1
	var cpuAt float64
	for {
		select {
		case <-fw.done:
			return
		case <-time.After(200 * time.Millisecond):
		}
		var sz int64
		if st, err := os.Stat(fw.wal); err == nil {
			sz = st.Size()
		}
		cpu := cpuSeconds(fw.cmd.Process.Pid)
		if sz != lastWal {
			lastWal, cpuAt = sz, cpu
		} else if (cpu >= 0 && cpu-cpuAt > p.HangCPU/2) || time.Now().After(deadline) {
			fw.cmd.Process.Kill()
			<-fw.done
			return
		}
	}
}

func (p *Parent) RunWorkers() *Result {
	merged := &Result{}
	units := p.Prop.Gen(p.Tier, p.Seed)
	n := p.Workers
	if len(units) < n {
		n = len(units)
	}
	if n == 0 {
		merged.Inconclusive = append(merged.Inconclusive, "no units generated")
		return merged
	}
	p.Workers = n
	var ws []*workerRun
	for i := 0; i < n; i++ {
		d := filepath.Join(p.WorkDir, fmt.Sprintf("w%d", i))
		os.MkdirAll(d, 0o755)
		w := &workerRun{shard: i, dir: d, wal: filepath.Join(d, "wal"), out: filepath.Join(d, "result.json"), errf: filepath.Join(d, "stderr")}
		if err := p.startWorker(w); err != nil {
			merged.Inconclusive = append(merged.Inconclusive, "cannot start worker: "+err.Error())
			continue
		}
		ws = append(ws, w)
	}
	wallLimit := 25 * time.Minute
	if p.Tier == "thorough" {
		wallLimit = 90 * time.Minute
	}
	live := len(ws)
	finished := make([]bool, len(ws))
	var pending sync.WaitGroup
	var fineMu sync.Mutex
	var fineViol []Violation
	defer func() {
		pending.Wait()
		merged.Violations = append(merged.Violations, fineViol...)
	}()
	for live > 0 {
		time.Sleep(200 * time.Millisecond)
		for i, w := range ws {
			if finished[i] {
				continue
			}
			select {
			case <-w.done:
				if _, err := os.Stat(w.out); err == nil && !w.hung {
					var r Result
					b, _ := os.ReadFile(w.out)
					if json.Unmarshal(b, &r) == nil {
						mergeInto(merged, &r)
						finished[i] = true
						live--
						continue
					}
				}
				// died without a result: diagnose
				idx, unit, step := lastOpenUnit(w.wal)
				stderrTail := tailFile(w.errf, 6000)
				stderrHead := headFile(w.errf, 3000)
				if unit == nil {
					merged.Inconclusive = append(merged.Inconclusive, fmt.Sprintf("worker %d died outside any unit: %s", w.shard, stderrTail))
					finished[i] = true
					live--
					continue
				}
				v := Violation{Unit: *unit, Inner: step}
				if w.hung {
					if strings.Contains(stderrHead+stderrTail, "github.com/boombuler/barcode") {
						v.Key = "hang:" + unit.Fn
						v.Msg = fmt.Sprintf("no progress after %.0f CPU-seconds inside the library", p.HangCPU)
						if w.bloated {
							v.Key = "memory-blowup:" + unit.Fn
							v.Msg = fmt.Sprintf("worker grew beyond %d MiB resident memory inside one unit", p.MaxRSSMiB)
						}
						v.Detail = stderrHead
					} else {
						merged.Inconclusive = append(merged.Inconclusive, fmt.Sprintf("worker %d stalled outside the library on unit %d", w.shard, idx))
					}
				} else {
					v.Key = "crash:" + unit.Fn
					v.Msg = "worker process died while executing this unit"
					if strings.Contains(stderrHead, "all goroutines are asleep") {
						v.Key = "deadlock:" + unit.Fn
						v.Msg = "Go runtime reported: all goroutines are asleep - deadlock!"
					}
					v.Detail = stderrHead
					if !strings.Contains(stderrHead+stderrTail, "github.com/boombuler/barcode") {
						// not attributable to the library: keep it out of the violation set
						merged.Inconclusive = append(merged.Inconclusive, fmt.Sprintf("worker %d died on unit %d without a library frame: %s", w.shard, idx, stderrHead))
						v.Key = ""
					}
				}
				if v.Key != "" {
					// pin down the inner step by re-running just this unit in fine mode —
					// in the background (the monitor loop must keep watching the other
					// workers), for the first three violations of a key only
					if merged.ViolCounts == nil {
						merged.ViolCounts = map[string]int64{}
					}
					merged.ViolCounts[v.Key]++
					if step == "" && merged.ViolCounts[v.Key] <= 3 {
						fd := filepath.Join(w.dir, fmt.Sprintf("fine%d", idx))
						os.MkdirAll(fd, 0o755)
						fw := &workerRun{shard: w.shard, dir: fd, wal: filepath.Join(fd, "wal"), out: filepath.Join(fd, "result.json"), errf: filepath.Join(fd, "stderr")}
						pending.Add(1)
						go func(v Violation, fw *workerRun, idx int) {
							defer pending.Done()
							if p.startWorker(fw, "-only", fmt.Sprint(idx), "-fine") == nil {
								p.waitFine(fw)
								_, _, st := lastOpenUnit(fw.wal)
								v.Inner = st
							}
							fineMu.Lock()
							fineViol = append(fineViol, v)
							fineMu.Unlock()
						}(v, fw, idx)
					} else {
						merged.Violations = append(merged.Violations, v)
					}
				}
				w.crashes++
				w.hung, w.bloated = false, false
				if w.crashes >= 6 {
					merged.Inconclusive = append(merged.Inconclusive, fmt.Sprintf("worker %d: giving up after %d crashes", w.shard, w.crashes))
					finished[i] = true
					live--
					continue
				}
				w.skip = append(w.skip, idx)
				os.Remove(w.out)
				if err := p.startWorker(w); err != nil {
					finished[i] = true
					live--
				}
			default:
				// still running: progress / hang accounting on CPU time, not wall clock
				st, err := os.Stat(w.wal)
				var sz int64
				if err == nil {
					sz = st.Size()
				}
				cpu := cpuSeconds(w.cmd.Process.Pid)
				if sz != w.lastWal {
					w.lastWal = sz
					w.cpuAt = cpu
				} else if cpu >= 0 && cpu-w.cpuAt > p.HangCPU && !w.hung {
					w.hung = true
					w.cmd.Process.Signal(syscall.SIGQUIT)
				}
				if rss := rssMiB(w.cmd.Process.Pid); rss > p.MaxRSSMiB && p.MaxRSSMiB > 0 && !w.hung {
					// unbounded memory growth inside one unit: dump and stop before the box suffers
					w.hung, w.bloated = true, true
					w.cmd.Process.Signal(syscall.SIGQUIT)
				}
				if time.Since(p.Start) > wallLimit {
					w.cmd.Process.Kill()
					merged.Inconclusive = append(merged.Inconclusive, fmt.Sprintf("outer wall-clock watchdog fired for worker %d", w.shard))
					finished[i] = true
					live--
				}
			}
		}
	}
	return merged
}

// KnownFindings parsed from /verif/known_findings.txt.
type KnownFinding struct {
	Prop string
	Key  string
	Text string
}

func LoadKnownFindings(path string) []KnownFinding {
	var out []KnownFinding
	b, err := os.ReadFile(path)
	if err != nil {
		return nil
	}
	for _, ln := range strings.Split(string(b), "\n") {
		ln = strings.TrimSpace(ln)
		if !strings.HasPrefix(ln, "finding:") {
			continue // "fixed:" lines and comments suppress nothing
		}
		f := strings.Fields(ln[len("finding:"):])
		kf := KnownFinding{}
		var rest []string
		for _, t := range f {
			switch {
			case strings.HasPrefix(t, "property="):
				kf.Prop = t[len("property="):]
			case strings.HasPrefix(t, "key="):
				kf.Key = t[len("key="):]
			default:
				rest = append(rest, t)
			}
		}
		kf.Text = strings.Join(rest, " ")
		if kf.Prop != "" && kf.Key != "" {
			out = append(out, kf)
		}
	}
	return out
}

func summarizeCov(cov map[string]map[string]int64) map[string]any {
	out := map[string]any{}
	var dims []string
	for d := range cov {
		dims = append(dims, d)
	}
	sort.Strings(dims)
	for _, d := range dims {
		m := cov[d]
		var keys []string
		for k := range m {
			keys = append(keys, k)
		}
		sort.Slice(keys, func(i, j int) bool {
			a, e1 := strconv.Atoi(keys[i])
			b, e2 := strconv.Atoi(keys[j])
			if e1 == nil && e2 == nil {
				return a < b
			}
			return keys[i] < keys[j]
		})
		vals := map[string]int64{}
		var order []string
		for i, k := range keys {
			if i >= 64 {
				break
			}
			vals[k] = m[k]
			order = append(order, k)
		}
		out[d] = map[string]any{"distinct": len(m), "values": vals, "listed": len(order)}
	}
	return out
}

// Conclude applies the known-findings file, writes replays and the evidence file,
// prints the verdict lines and returns the process exit code.
func (p *Parent) Conclude(merged *Result) int {
	if f, ok := p.Prop.(Finalizer); ok {
		f.Finalize(p, merged)
	}
	id := p.Prop.ID()
	known := LoadKnownFindings(filepath.Join(p.VerifDir, "known_findings.txt"))
	isKnown := func(key string) *KnownFinding {
		for i := range known {
			if known[i].Prop == id && known[i].Key == key {
				return &known[i]
			}
		}
		return nil
	}
	replayDir := filepath.Join(p.VerifDir, "replays", id)
	if ed := os.Getenv("VERIF_EVIDENCE_DIR"); ed != "" {
		// self-test runs against a scratch copy keep their replays with their evidence
		replayDir = filepath.Join(ed, "replays", id)
	}
	// replays of an earlier run with the same seed and tier are superseded
	if old, _ := filepath.Glob(filepath.Join(replayDir, fmt.Sprintf("%d-%s-*.json", p.Seed, p.Tier))); len(old) > 0 {
		for _, f := range old {
			os.Remove(f)
		}
	}
	printedKnown := map[string]bool{}
	newViol := 0
	knownViol := 0
	seenKeyRep := map[string]int{}
	var lines []string
	for i := range merged.Violations {
		v := &merged.Violations[i]
		if kf := isKnown(v.Key); kf != nil {
			knownViol++
			if !printedKnown[v.Key] {
				printedKnown[v.Key] = true
				lines = append(lines, fmt.Sprintf("KNOWN-FINDING: property=%s key=%s %s", id, v.Key, kf.Text))
			}
			continue
		}
		newViol++
		seenKeyRep[v.Key]++
		if seenKeyRep[v.Key] > 3 {
			continue
		}
		os.MkdirAll(replayDir, 0o755)
		path := filepath.Join(replayDir, fmt.Sprintf("%d-%s-%d.json", p.Seed, p.Tier, i))
		rb, _ := json.MarshalIndent(map[string]any{
			"property": id, "tier": p.Tier, "seed": p.Seed, "violation": v,
		}, "", " ")
		os.WriteFile(path, rb, 0o644)
		msg := v.Msg
		if len(msg) > 300 {
			msg = msg[:300] + "…"
		}
		inner := v.Inner
		if len(inner) > 200 {
			inner = inner[:200] + "…"
		}
		fmt.Printf("# key=%s msg=%s inner=%s\n", v.Key, msg, inner)
		lines = append(lines, fmt.Sprintf("VIOLATION property=%s replay=%s", id, path))
	}
	// counts per key, for the log
	var keys []string
	for k := range merged.ViolCounts {
		keys = append(keys, k)
	}
	sort.Strings(keys)
	for _, k := range keys {
		fmt.Printf("# violations key=%s count=%d known=%v\n", k, merged.ViolCounts[k], isKnown(k) != nil)
	}

	wall := time.Since(p.Start).Seconds()
	assume := append([]string{}, p.Assume...)
	if a, ok := p.Prop.(Assumer); ok {
		assume = append(assume, a.Assumptions()...)
	}
	cov := map[string]any{
		"evaluations":         merged.Evals,
		"distinct_nontrivial": merged.Nontrivial,
		"rule":                p.Prop.Rule(),
		"samples":             merged.Samples,
		"units":               merged.Units,
		"observed":            summarizeCov(merged.Cov),
		"counters":            merged.Extra,
		"violation_keys":      merged.ViolCounts,
	}
	if len(p.Trusted) > 0 {
		cov["trusted_base"] = p.Trusted
	}
	if p.Exhaustive {
		cov["exhaustive"] = true
		cov["exhaustive_subdomain"] = p.ExhaustiveNote
	}
	for k, v := range p.ExtraCov {
		cov[k] = v
	}
	if len(merged.Inconclusive) > 0 {
		cov["inconclusive_notes"] = merged.Inconclusive
	}
	ev := map[string]any{
		"property_id":        id,
		"tier":               p.Tier,
		"seed":               p.Seed,
		"level":              "exploration",
		"coverage":           cov,
		"assumptions":        assume,
		"wall_s":             wall,
		"violations":         newViol,
		"known_finding_hits": knownViol,
	}
	evDir := os.Getenv("VERIF_EVIDENCE_DIR")
	if evDir == "" {
		evDir = filepath.Join(p.VerifDir, "evidence")
	}
	os.MkdirAll(evDir, 0o755)
	eb, _ := json.MarshalIndent(ev, "", " ")
	inconclusive := len(merged.Inconclusive) > 0 || merged.Evals == 0 || merged.Nontrivial < 2
	evPath := filepath.Join(evDir, id+".json")
	if merged.Evals > 0 && merged.Nontrivial >= 2 && len(merged.Samples) > 0 {
		os.WriteFile(evPath, eb, 0o644)
	} else {
		os.Remove(evPath)
	}
	for _, l := range lines {
		fmt.Println(l)
	}
	fmt.Printf("# %s %s seed=%d units=%d evaluations=%d distinct_nontrivial=%d violations=%d known=%d wall=%.1fs\n",
		id, p.Tier, p.Seed, merged.Units, merged.Evals, merged.Nontrivial, newViol, knownViol, wall)
	if newViol > 0 {
		return 1
	}
	if inconclusive {
		reason := "monitor observed too little"
		if len(merged.Inconclusive) > 0 {
			reason = merged.Inconclusive[0]
		}
		reason = strings.ReplaceAll(reason, "\n", " ")
		if len(reason) > 300 {
			reason = reason[:300]
		}
		fmt.Printf("INCONCLUSIVE property=%s reason=%s\n", id, reason)
		return 3
	}
	fmt.Printf("HELD property=%s on everything explored\n", id)
	return 0
}
