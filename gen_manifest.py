#!/usr/bin/env python3
"""Regenerates MANIFEST.json from the table below (kept in one place so that the
manifest is always valid and consistent with what ./check implements)."""
import json, subprocess, sys

CHECKS = {
 "C18": dict(
   technique="offline history checker: recorded BitList operation histories replayed against a []bool sequential model (exhaustive short histories + random long ones)",
   text="Exploration: every operation sequence over a reduced alphabet up to depth 5 (quick) / 7 (thorough) plus seed-determined random histories of up to 1e5 operations crossing the 32-bit word and the 128-/1024-word growth boundaries, each compared bit by bit (GetBit, GetBytes, IterateBytes) with an executable model. Held on what was observed; not a proof for unbounded histories.",
   note="trusted: the []bool model and MSB-first packing rule in props/c18.go; operations used inside their documented domain",
   ref="C18"),
}
PENDING = {}

def main():
    ids = ["C%02d" % i for i in range(1, 19)]
    checks = []
    for i in ids:
        if i not in CHECKS: continue
        c = CHECKS[i]
        checks.append({
            "property_id": i,
            "quick_cmd": "./check %s quick" % i,
            "thorough_cmd": "./check %s thorough" % i,
            "evidence_file": "/verif/evidence/%s.json" % i,
            "replay_cmd_template": "./check replay {path}",
            "engine": "vcheck",
            "level_claimed": {"category": "exploration", "text": c["text"], "design_ref": "DESIGN.md §3 " + c["ref"]},
            "level_note": c["note"],
            "technique": c["technique"],
        })
    na = [{"property_id": i, "reason": PENDING.get(i, "monitor not built yet in this tree (work in progress; see DESIGN.md §3 for the planned check)")} for i in ids if i not in CHECKS]
    hooks_commits = [l.strip() for l in open("hook_commits.txt")] if __import__("os").path.exists("hook_commits.txt") else []
    m = {
        "version": 1,
        "setup_cmd": "./check build",
        "hooks": {
            "guard": "verif",
            "enable": "go build -tags verif (harness module replaces github.com/boombuler/barcode => /repo)",
            "baseline_off_cmd": "cd /repo && GOFLAGS=-mod=mod GOPROXY=off GOSUMDB=off GOTOOLCHAIN=local go test -vet=off -count=1 ./...",
            "source_commits": hooks_commits,
            "add_only": True,
        },
        "engines": [{"name": "vcheck", "path": "/verif/harness", "serves_properties": [c["property_id"] for c in checks],
                     "kind_free_text": "Go runtime-monitoring harness: sharded child-process workers with write-ahead log drive the real library; reference decoders / executable models / race detector observe every execution"}],
        "checks": checks,
        "not_applicable": na,
        "notes": "All verdicts are 'held on K observed executions'. Exit 0 held, 1 violation (VIOLATION line), 3 inconclusive (INCONCLUSIVE line). VERIF_SEED selects the case lists.",
    }
    json.dump(m, open("MANIFEST.json", "w"), indent=1)
    print("MANIFEST.json written:", len(checks), "checks,", len(na), "not applicable")

main()
