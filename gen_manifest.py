#!/usr/bin/env python3
"""Regenerates MANIFEST.json from the table below (kept in one place so that the
manifest is always valid and consistent with what ./check implements)."""
import json, subprocess, sys

CHECKS = {
 "C18": dict(
   technique="offline history checker: recorded BitList operation histories replayed against a []bool sequential model (exhaustive short histories + random long ones)",
   text="Exploration: every operation sequence over a reduced alphabet up to depth 5 (quick) / 7 (thorough) plus seed-determined random histories of up to 1e5 operations crossing the 32-bit word and the 128-/1024-word growth boundaries, each compared bit by bit (GetBit, GetBytes, IterateBytes) with an executable model. Held on what was observed; not a proof for unbounded histories.",
   note="trusted: the []bool model and MSB-first packing rule in props/c18.go; operations used inside their documented domain",
   ref="C18"),
}
CHECKS["C17"] = dict(
   technique="reference-model monitor: exhaustive operand-pair comparison with carry-less reference arithmetic; RS histories checked by root evaluation; cache-invariant hook evaluated under the cache's own lock",
   text="Exploration, exhaustive for the finite part: all operand pairs of all 7 constructed fields (1.8e7 operand pairs: products both ways, divisions, inverses) against table-free reference arithmetic; all triples of the fields up to 256 elements for associativity (thorough; sampled in quick and for GF(1024)/GF(4096)); random/structured polynomials; RS encoder histories with check counts 0..600 in ascending/descending/random/repeated order, verified by evaluating data||check at the required roots, with the verif hook asserting the generator-polynomial cache invariant under the lock.",
   note="trusted: shift-and-xor reference arithmetic in refdec/gf.go; don't-care: division by zero, Invers(0), zero check symbols",
   ref="C17")
CHECKS["C05"] = dict(
   technique="reference-decoder monitor: independent Code 128 reader (ISO 15417 pattern table, code sets A/B/C, shifts, FNC1-4, modulo-103) run on every symbol the real encoder emits",
   text="Exploration: all sequences over six character classes up to length 5 (quick) / 7 (thorough) with two random representatives each, digit runs 1..12 with FNC1 at every offset, every single character, length boundaries, random long mixes, both checksum variants; each accepted symbol is decoded from its pixels and compared with the content.",
   note="trusted: 107-pattern table and code-set semantics written from ISO/IEC 15417 in refdec/onedim.go",
   ref="C05")
CHECKS["C06"] = dict(
   technique="reference-decoder monitor + exhaustive enumeration of the EAN-8 input space (thorough)",
   text="Exploration; exhaustive for EAN-8 in the thorough tier (all 1e7 seven-digit and all 1e8 eight-digit strings). Acceptance rule, completed Content(), kind, module count, guard bars and L/G/R/parity decode are checked against an independent GS1 model for every input; quick uses 2e5 random numbers, the 1200-cell (first digit, position, digit) covering set and malformed strings.",
   note="trusted: GS1 L table / parity words / modulo-10 rule in refdec/onedim.go",
   ref="C06")
CHECKS["C07"] = dict(
   technique="reference-decoder monitor: Code 39 / Code 93 readers built from the symbologies' construction rules, run on every emitted symbol in every option mix",
   text="Exploration, exhaustive for lengths 0..2 over ASCII 0..127 in all 2x2x2 option mixes (length 3 over the 43-character alphabet in thorough) plus random texts up to 60 characters (weight wrap-around); check characters must be present exactly when requested and correct, full-ASCII shift pairs must resolve to the text.",
   note="trusted: construction-rule tables in refdec/onedim.go; the four Code 93 special characters (exported as FNC1..FNC4) are part of the basic-mode domain",
   ref="C07")
CHECKS["C08"] = dict(
   technique="reference-decoder monitor: narrow/wide readers for Codabar, standard and interleaved 2 of 5; arithmetic oracle for AddCheckSum",
   text="Exploration, exhaustive for short inputs: all Codabar strings over its 20 characters to length 4 (quick) / 6 (thorough) with the accept-iff rule as part of the oracle, all digit strings to length 5 / 7 for both 2-of-5 variants and AddCheckSum, random long strings, hostile runes.",
   note="trusted: AIM pattern tables in refdec/onedim.go",
   ref="C08")
CHECKS["C09"] = dict(
   technique="reference-model monitor: executable pixel model of Scale evaluated on the source's own pixel grid; every pixel of every result compared",
   text="Exploration: sources from all eleven families under several colour schemes, full (w,h) windows for small symbols and boundary grids for large ones, eight fill colours over five colour models, chains of up to three scalings, and enormous requests (2^31 … MaxInt in one or both dimensions, compared on a sample of coordinates: edges, both sides of module boundaries, module centres, a fixed scatter), chains through intermediate images of 65 535 … 2^20 pixels per axis; acceptance rule, bounds, centring within one pixel, block replication, fill, Content/Metadata/CheckSum pass-through.",
   note="trusted: the model in props/c09.go (factor = largest integer that fits; offset floor or ceil of the exact centre)",
   ref="C09")
CHECKS["C14"] = dict(
   technique="reference-decoder monitor: CheckSum() compared with the check value computed from the decoded symbol, before and after 1..3 rounds of Scale",
   text="Exploration: random EAN inputs of all four lengths, Code 128 contents over all classes, Code 39 contents in all option mixes plus all two-character texts; the drawn check character must carry the reported value.",
   note="trusted: the 1D reference decoders; Code 39 check value defined over the expanded data characters",
   ref="C14")
CHECKS["C01"] = dict(
   technique="reference-decoder monitor: independent ISO 18004 reader (function patterns, BCH, unmask, de-interleave, RS syndromes, segment/terminator/pad parse) run on the pixels of every symbol the real encoder emits",
   text="Exploration: one symbol at capacity for each of the 160 (version, level) layouts, capacity boundaries cap-1/cap/cap+1 in all three modes (160 boundaries quick, all 480 thorough), random contents in four modes, hostile inputs (signs, spaces, invalid UTF-8, multi-byte and truncating runes), empty content, equal-bit-count mode pairs back to back, hash-collision pairs, rejected calls interleaved, retained results re-read; all 8 masks observed.",
   note="trusted: block table, alignment formula, BCH generators, mask predicates in refdec/qr.go (written from ISO 18004 / Nayuki, independent of /repo)",
   ref="C01")
CHECKS["C02"] = dict(
   technique="reference-decoder monitor: independent ISO 16022 ECC 200 reader (finder/clock per region, Annex F placement, RS syndromes, ASCII + upper shift + 253-state pads)",
   text="Exploration: ASCII-encodation lengths cap-1/cap/cap+1 around all 24 capacities in five content classes plus random byte strings (quick); every codeword count 0..1560 in every class (thorough); all 24 sizes, 1/4/16/36 regions, 1..10 blocks, corner cases 1 and 2 and the fixed pattern observed.",
   note="trusted: size table and Annex F placement in refdec/datamatrix.go; 144x144 check-word interleave accepted in both conventions",
   ref="C02")
CHECKS["C03"] = dict(
   technique="reference-decoder monitor: independent ISO 24778 reader (bullseye, orientation, RS-checked mode message, reference grid, spiral, RS syndromes per word size, un-stuffing, 5-mode + binary-shift decode)",
   text="Exploration: all 36 sizes forced by explicit layer requests and reached by automatic sizing, 13 ecc percentages, payload classes (empty, all byte values, mode-transition walks, punct pairs in every mode, digit runs, binary runs around 31/62/2078, stuffing runs) — each accepted symbol decoded and compared, explicit layer requests must be honoured exactly.",
   note="trusted: tables and geometry in refdec/aztec.go (decoder direction of ISO 24778)",
   ref="C03")
CHECKS["C04"] = dict(
   technique="reference-decoder monitor: independent ISO 15438 reader (start/stop, pattern laws + cluster, row indicators, length descriptor, RS syndromes mod 929, text/byte/numeric decode)",
   text="Exploration: 9 levels x sub-mode walks, text/913/text in every final sub-mode and parity, digit runs around 13/44/88, byte runs of every length mod 6, UTF-8, length sweep to ~900 codewords; all 929 patterns of all 3 clusters and 100+ (rows, cols) shapes observed in the quick tier.",
   note="TRUSTED DATA: frozen pattern->value snapshot (refdec/pdf417_table.go) admitted after structural-law check; formulas from ISO 15438",
   ref="C04")
CHECKS["C10"] = dict(
   technique="acceptance-oracle monitor: independent three-region predicate (must-accept / must-reject / don't-care) evaluated next to every call of all 22 Encode* entry points and AddCheckSum, with panic capture, child-process crash diagnosis (write-ahead log) and CPU-time based hang detection",
   text="Exploration: boundary-directed inputs (QR version-40 capacity per level x mode from both sides, DataMatrix 1558 codewords per class, Code 128 80 runes, PDF417 totals around 900/928 per level, Aztec forced-binary payloads around every size's capacity and eight kinds of text — prose, records, Punct pairs … — at the longest length a valid reference encoding still fits) and hostile inputs (every byte value, invalid UTF-8, multi-byte runes, signs/spaces, FNC runes, integer extremes incl. MinInt/MaxInt layers and percentages, all 256 PDF417 level bytes, nil slices, numbers in printed forms with separators/prefixes, structured payloads); a rejected call must return a nil interface (no typed nil) and its error must keep its text.",
   note="trusted: the acceptance predicates in props/c10.go; don't-care regions listed in the evidence assumptions",
   ref="C10")
CHECKS["C11"] = dict(
   technique="invariant monitor at the image boundary: every pixel, accessor and the module pattern compared under generated colour schemes against the plain rendering and the decoded structure",
   text="Exploration: all eleven families x 22 entry points x colour schemes over seven colour models with seed-chosen colours (and the library's predefined schemes) x contents of several size classes; bounds, exactly-two-colours, ColorScheme/ColorModel, scheme-independence of the pattern, Metadata, Content (EAN completed, Code 39/93 expansion).",
   note="trusted: reference readers for the structural size; expansion tables in refdec/onedim.go",
   ref="C11")
CHECKS["C12"] = dict(
   technique="reference-decoder monitor: declared level / check-codeword counts read back from the pixels and compared with the request",
   text="Exploration: the C01-C04 case lists re-tagged plus Aztec percentage sweeps (0..MaxInt) at fixed payloads and explicit layers, PDF417 and QR level sweeps; QR format level and ISO block layout, PDF417 indicators' level and 2^(l+1) valid check words, Aztec check bits >= requested percentage of payload bits, DataMatrix ECC 200 count.",
   note="trusted: reference readers of C01-C04",
   ref="C12")
CHECKS["C13"] = dict(
   technique="reference-decoder monitor + metamorphic API relation (Aztec): decoded symbol size bounded by an independent capacity model at every boundary from both sides",
   text="Exploration: boundary-directed case lists of C01/C02/C04 plus Aztec payloads around every layer boundary; QR version <= minimal version for the mode, DataMatrix size <= smallest size for the ASCII encodation, every smaller explicit Aztec size is refused, PDF417 pads < one row and shape limits.",
   note="trusted: capacity formulas in refdec (QR Table 7 via raw-module formula and block table, DataMatrix geometry, Aztec size formula)",
   ref="C13")
CHECKS["C15"] = dict(
   technique="offline history checker: digests recorded by one-shot, long-lived and ordered-pair processes checked against the sequential model 'the digest of a request is a constant'; aliasing probes; retained-result re-hash; cache hook state log",
   text="Exploration: request pool over all symbologies with one QR and one DataMatrix request per distinct Reed-Solomon degree, the same content under varied parameters, and the WithColor entry point of every family; fresh one-shot processes, long-lived histories (ascending/descending/random order, repetitions, retained barcodes re-hashed at the end), every ordered pair of QR degrees (and DataMatrix degrees in thorough) and QR equal-bit-count mode pairs in fresh processes; []byte aliasing (overwrite after a first read, and overwrite before the first accessor call on the barcode or its Scale wrapper), spare-capacity and buffer-reuse probes on Aztec (the same slice with new bytes is encoded again and decoded); QR mask-tie and version-step repetitions.",
   note="trusted: SHA-256 digest over bounds, pixels and accessors; hook utils/verif_on.go for the cache-state log",
   ref="C15")
CHECKS["C16"] = dict(
   technique="Go race detector over repeated cold-start concurrent workloads in fresh processes + digest comparison against a sequential baseline + state-based goroutine-leak verdict + cache-invariant hook (separate sink-on pass)",
   text="Exploration of schedules: per run 24 (quick) / 300 (thorough) general fresh -race processes over the grid goroutines {2..64} x GOMAXPROCS {1..16}, each with a cold-start focus (RS-degree climb, Aztec 8/10/12-bit, PDF417, big DataMatrix/QR, 1D), plus 48 / 400 'micro' processes of cheap cold starts per 1D/small package and free-running streams of large Aztec symbols; the concurrent calls are the first library calls in each process (pre-barrier objects avoid the focus package); shared barcodes, barcodes on which nothing was called before the barrier, shared scaled 2D barcodes (factors 2, 8, 9, 13, rows read in disjoint bands) and shared RS encoders are read/used by all goroutines; rejected requests of every family (early and late refusal paths) run concurrently and their errors are re-read; per family one 'hammer' process calls the encoder in tight loops from all goroutines, refusals interleaved, every result decoded inline; 'twin' cold starts (40 classes: every PDF417 level, DataMatrix/QR/Aztec size classes and multi-round processes over all sizes/levels/versions/layers, every 1D option mix; 72 to 576 fresh processes per 1D class) release all goroutines through a spin barrier into the SAME first request, so lazily built per-size/per-level/per-option state is first-used by all at once; any race report, digest difference from the sequential baseline, panic, deadlock (all goroutines blocked, confirmed by dump) or blocked library goroutine after quiescence is a violation.",
   note="the race detector sees only executed code; schedules are sampled; monitor adds no synchronisation in race-deciding runs",
   ref="C16")
PENDING = {}

def main():
    ids = ["C%02d" % i for i in range(1, 19)]
    checks = []
    for i in ids:
        if i not in CHECKS: continue
        c = CHECKS[i]
        checks.append({
            "property_id": i,
            "quick_cmd": "./check %s quick" % i,
            "thorough_cmd": "./check %s thorough" % i,
            "evidence_file": "/verif/evidence/%s.json" % i,
            "replay_cmd_template": "./check replay {path}",
            "engine": "vcheck",
            "level_claimed": {"category": "exploration", "text": c["text"], "design_ref": "DESIGN.md §3 " + c["ref"]},
            "level_note": c["note"],
            "technique": c["technique"],
        })
    na = [{"property_id": i, "reason": PENDING.get(i, "monitor not built yet in this tree (work in progress; see DESIGN.md §3 for the planned check)")} for i in ids if i not in CHECKS]
    hooks_commits = [l.strip() for l in open("hook_commits.txt")] if __import__("os").path.exists("hook_commits.txt") else []
    m = {
        "version": 1,
        "setup_cmd": "./check build",
        "hooks": {
            "guard": "verif",
            "enable": "go build -tags verif (harness module replaces github.com/boombuler/barcode => /repo)",
            "baseline_off_cmd": "cd /repo && GOFLAGS=-mod=mod GOPROXY=off GOSUMDB=off GOTOOLCHAIN=local go test -vet=off -count=1 ./...",
            "source_commits": hooks_commits,
            "add_only": True,
        },
        "engines": [{"name": "vcheck", "path": "/verif/harness", "serves_properties": [c["property_id"] for c in checks],
                     "kind_free_text": "Go runtime-monitoring harness: sharded child-process workers with write-ahead log drive the real library; reference decoders / executable models / race detector observe every execution"}],
        "checks": checks,
        "not_applicable": na,
        "notes": "All verdicts are 'held on K observed executions'. Exit 0 held, 1 violation (VIOLATION line), 3 inconclusive (INCONCLUSIVE line). VERIF_SEED selects the case lists.",
    }
    json.dump(m, open("MANIFEST.json", "w"), indent=1)
    print("MANIFEST.json written:", len(checks), "checks,", len(na), "not applicable")

main()
