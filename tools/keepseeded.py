#!/usr/bin/env python3
"""Confirms sub-agent mutants (/tmp/wt/Cxx/mutants/mN) in a scratch worktree and keeps
the confirmed ones as /verif/seeded/Cxx-mN/{patch.diff,demo_test.go,notes.md,meta.json}.
usage: tools/keepseeded.py [tier] [Cxx…]"""
import json, os, re, shutil, subprocess, sys, glob, concurrent.futures as cf
tier = "quick"
args = sys.argv[1:]
if args and args[0] in ("quick", "thorough"):
    tier = args.pop(0)
ids = args or ["C%02d" % i for i in range(1, 19)]
EXTRA = {"C06-m2": ["C15"], "C12-m1": ["C01", "C15"], "C13-m1": ["C01", "C15"], "C16-m2": ["C10", "C01"], "C10-m3": ["C16"], "C11-m3": ["C15"],
         "C15-m1": ["C17", "C02"], "C15-m3": ["C01"], "C16-m1": ["C15", "C17"], "C17-m1": ["C15"], "C03-m2": ["C10"], "C10-m2": ["C03"], "C12-m3": ["C03"],
         "C14-m2": ["C05"], "C14-m3": ["C09"], "C05-m1": ["C14"], "C07-m3": ["C14"], "C02-m3": ["C15"], "C04-m3": ["C15"], "C08-m3": ["C15"], "C07-m2": ["C15"], "C01-m2": ["C15"]}
EXTRA.update({"C02-r2-m2": ["C16"], "C04-r2-m2": ["C16"], "C05-r2-m3": ["C16"], "C07-r2-m2": ["C16"], "C09-r2-m3": ["C16"], "C12-r2-m3": ["C16"], "C17-r2-m1": ["C16"],
  "C14-r2-m3": ["C16"], "C18-r2-m3": ["C16"], "C10-r2-m3": ["C16"], "C03-r2-m2": ["C16"], "C06-r2-m1": ["C15", "C11"], "C11-r2-m3": ["C07"], "C01-r2-m1": ["C13", "C15"],
  "C13-r2-m2": ["C01", "C15"], "C15-r2-m3": ["C01", "C13"], "C14-r2-m2": ["C07"], "C12-r2-m1": ["C03", "C01"], "C12-r2-m2": ["C03", "C10"], "C01-r2-m2": ["C15"], "C02-r2-m1": ["C15"],
  "C08-r2-m1": ["C15"], "C06-r2-m2": ["C15"], "C05-r2-m2": ["C15"], "C15-r2-m1": ["C04", "C12"], "C16-r2-m2": ["C01", "C10"], "C16-r2-m3": ["C04"], "C16-r2-m1": ["C03"]})

EXTRA.update({"C06-r3-m1": ["C11"], "C06-r3-m2": ["C14"], "C06-r3-m3": ["C10"], "C07-r3-m1": ["C10"], "C07-r3-m2": ["C11"], "C07-r3-m3": ["C10"], "C08-r3-m2": ["C11"], "C08-r3-m3": ["C10"],
  "C02-r3-m3": ["C11"], "C14-r3-m2": ["C10", "C07"], "C01-r3-m2": ["C03", "C12", "C17"], "C10-r3-m2": ["C05"], "C15-r3-m2": ["C01"], "C16-r3-m1": ["C01"], "C12-r3-m3": ["C01"], "C08-r3-m1": ["C18"],
  "C01-r3-m1": ["C10"], "C02-r3-m2": ["C10"], "C13-r3-m3": ["C02"], "C10-r3-m3": ["C03"], "C10-r3-m1": ["C03"], "C12-r3-m1": ["C03"], "C11-r3-m3": ["C07"]})

def one(path):
    cid = path.split("/")[3]
    name = "%s-%s%s" % (cid, os.environ.get("ROUND", ""), os.path.basename(path))
    props = [cid] + EXTRA.get(name, [])
    r = subprocess.run(["/verif/tools/evalmutant.sh", path, tier] + props, capture_output=True, text=True, errors="replace")
    out = r.stdout
    res = dict(name=name, out=out)
    ok = "demo-clean: PASS" in out and "demo-mutant: FAIL" in out and "suite: PASS" in out
    checks = {}
    for m in re.finditer(r"check (C\d+) (\w+): exit=(\d+) keys: (.*)", out):
        checks[m.group(1)] = dict(tier=m.group(2), exit=int(m.group(3)), violation_keys=m.group(4).split())
    res["confirmed"] = ok
    res["checks"] = checks
    if ok:
        d = "/verif/seeded/" + name
        os.makedirs(d, exist_ok=True)
        for f in ("patch.diff", "demo_test.go", "notes.md"):
            shutil.copy(os.path.join(path, f), os.path.join(d, f))
        notes = open(os.path.join(path, "notes.md")).read()
        race = "-race " if re.search(r"-race", notes) else ""
        meta = {
            "id": name,
            "property_broken": cid,
            "source": "independent sub-agent given only the property text and a scratch worktree of /repo",
            "needs_to_manifest": " ".join(l.strip("-# ").strip() for l in notes.split("\n") if l.strip())[:900],
            "confirmed": {
                "patch_applies_and_builds": True,
                "existing_suite_passes_with_patch": True,
                "demo_passes_on_unchanged_tree": True,
                "demo_fails_with_patch": True,
                "commands": [
                    "git -C /repo worktree add --detach /tmp/mw/<scratch> HEAD",
                    "cp demo_test.go /tmp/mw/<scratch>/zzdemo/ && go test %s-count=1 ./zzdemo/   # passes" % race,
                    "git apply patch.diff && go build ./... && go test %s-count=1 ./zzdemo/   # fails" % race,
                    "go test -vet=off -count=1 ./...   # 56 tests pass",
                    "VERIF_REPO=/tmp/mw/<scratch> ./check <Cxx> %s" % tier,
                    "git -C /repo worktree remove --force /tmp/mw/<scratch>",
                ],
            },
            "caught_by": {p: c for p, c in checks.items() if c["exit"] == 1},
            "not_caught_by": [p for p, c in checks.items() if c["exit"] != 1],
        }
        json.dump(meta, open(os.path.join(d, "meta.json"), "w"), indent=1)
    return res
paths = []
for i in ids:
    paths += sorted(glob.glob(os.environ.get("WT", "/tmp/wt") + "/%s/mutants/m*" % i))
with cf.ThreadPoolExecutor(max_workers=3) as ex:
    for r in ex.map(one, paths):
        caught = [p for p, c in r["checks"].items() if c["exit"] == 1]
        print("%-8s confirmed=%s caught_by=%s missed=%s" % (r["name"], r["confirmed"], caught, [p for p in r["checks"] if p not in caught]), flush=True)
        if not r["confirmed"]:
            print(r["out"])
