#!/bin/bash
# tools/evalall.sh <Cxx> [tier] [extra props…]: evaluate /tmp/wt/Cxx/mutants/m* against the check of Cxx
ID=$1; TIER=${2:-quick}; shift; shift
for m in ${WT:-/tmp/wt}/$ID/mutants/m*; do
  [ -f "$m/patch.diff" ] || continue
  echo "=== $ID $(basename $m): $(head -c 200 $m/notes.md | tr '\n' ' ' | cut -c1-160)"
  /verif/tools/evalmutant.sh "$m" "$TIER" "$ID" "$@" 2>&1 | grep -v '^$'
done
