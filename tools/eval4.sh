#!/bin/bash
# [WT=/tmp/wt5] tools/eval4.sh <pkg> [tier]: evaluate $WT/<pkg>/mutants/m* against the property named in notes.md plus the package's checks
PKG=$1; TIER=${2:-quick}
declare -A DEF=( [qr]="C01 C10 C11 C12 C13 C15" [datamatrix]="C02 C10 C11 C12 C13 C15" [aztec]="C03 C10 C11 C12 C13 C15" [pdf417]="C04 C10 C11 C12 C13 C15"
 [code128]="C05 C10 C11 C14 C15" [code39]="C07 C10 C11 C14 C15" [code93]="C07 C10 C11 C15" [codabar]="C08 C10 C11 C15" [ean]="C06 C10 C11 C14 C15" [twooffive]="C08 C10 C11 C15"
 [code39-93]="C07 C10 C11 C14 C15" [codabar-2of5]="C08 C10 C11 C15" [utils-bits]="C18 C11 C05 C09 C14" [utils-gf]="C17 C01 C02 C03 C15" [root-scale]="C09 C11 C14" )
for m in ${WT:-/tmp/wt4}/$PKG/mutants/m*; do
  [ -f "$m/patch.diff" ] || continue
  P=$(head -3 "$m/notes.md" | grep -o 'C[0-9][0-9]' | head -1)
  LIST="$P"; for q in ${DEF[$PKG]}; do [ "$q" != "$P" ] && LIST="$LIST $q"; done
  echo "=== $PKG $(basename $m) [$P]: $(sed -n 2,4p $m/notes.md | tr '\n' ' ' | cut -c1-150)"
  /verif/tools/evalmutant.sh "$m" "$TIER" $LIST C16 2>&1 | grep -v '^$' | grep -v 'demo-clean: PASS\|as it should\|suite: PASS'
done
