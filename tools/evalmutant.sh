#!/bin/bash
# tools/evalmutant.sh <mutant-dir> <tier> <Cxx> [Cyy…]
#   mutant-dir holds patch.diff (+ optional demo_test.go).  A scratch copy of /repo's
#   HEAD is made under /tmp/mw, the patch applied, the library's own suite run, the
#   demonstration run with and without the patch, and then the named checks are run
#   against the scratch copy (VERIF_REPO).  Prints one summary line per step; the
#   scratch copy and its evidence are removed at the end.
set -u
M="$(cd "$1" && pwd)"; TIER="$2"; shift 2
export GOFLAGS=-mod=mod GOPROXY=off GOSUMDB=off GOTOOLCHAIN=local
NAME="$(echo "$M" | md5sum | cut -c1-10)"
W=/tmp/mw/$NAME
rm -rf "$W"; mkdir -p /tmp/mw
git -C /repo worktree add -q --detach "$W" HEAD || exit 2
MFN="$(echo "$W" | md5sum | cut -c1-12)"
cleanup() { git -C /repo worktree remove --force "$W" 2>/dev/null; rm -rf "$W" "/tmp/mw/ev-$NAME" "/verif/.work/modfiles/$MFN" 2>/dev/null; }
trap cleanup EXIT
if [ -f "$M/demo_test.go" ]; then
  mkdir -p "$W/zzdemo"; cp "$M/demo_test.go" "$W/zzdemo/"
  RACE=""; grep -qi -- '-race' "$M/notes.md" 2>/dev/null && RACE="-race"
  grep -q '^//go:build zzdemo' "$M/demo_test.go" && RACE="$RACE -tags zzdemo"
  if (cd "$W" && go test $RACE -count=1 ./zzdemo/ >/dev/null 2>&1); then echo "demo-clean: PASS"; else echo "demo-clean: FAIL (demonstration does not pass on the unchanged tree)"; fi
fi
if ! git -C "$W" apply "$M/patch.diff"; then echo "patch: DOES NOT APPLY"; exit 1; fi
if ! (cd "$W" && go build ./... ) >/dev/null 2>&1; then echo "build: FAIL"; exit 1; fi
if [ -d "$W/zzdemo" ]; then
  if (cd "$W" && go test $RACE -count=1 ./zzdemo/ >/dev/null 2>&1); then echo "demo-mutant: PASS (demonstration does not fail with the change)"; else echo "demo-mutant: FAIL (as it should)"; fi
  rm -rf "$W/zzdemo"
fi
if (cd "$W" && go test -vet=off -count=1 ./... >/dev/null 2>&1); then echo "suite: PASS"; else echo "suite: FAIL (existing tests notice the change)"; fi
for P in "$@"; do
  out=$(cd /verif && VERIF_REPO="$W" VERIF_EVIDENCE_DIR="/tmp/mw/ev-$NAME" ./check "$P" "$TIER" 2>&1)
  code=$?
  keys=$(echo "$out" | grep '^# violations key=' | sed 's/# violations key=//; s/ count=.*//' | tr '\n' ' ')
  echo "check $P $TIER: exit=$code keys: $keys"
done
