#!/bin/bash
# Measures the reference readers themselves: every single module of a set of valid
# symbols is flipped in turn; the reader must reject the pattern or decode something
# else.  Writes selftest/oracle-sensitivity.json.  Development-time evidence, not a check.
export GOFLAGS=-mod=mod GOPROXY=off GOSUMDB=off GOTOOLCHAIN=local
cd "$(dirname "$0")/../harness" && SENSITIVITY_OUT=/verif/selftest/oracle-sensitivity.json go test -tags verif -count=1 -run TestOracleSensitivity -v ./props/ 2>&1 | grep -E "symbols=|PASS|FAIL|ok"
