#!/usr/bin/env python3
"""Per-package agent rounds (WT=/tmp/wtN ROUND=rN): confirm and keep $WT/<pkg>/mutants/mN as /verif/seeded/<pkg>-$ROUND-mN."""
import json, os, re, shutil, subprocess, glob, concurrent.futures as cf
DEF = {"qr": ["C01", "C10", "C15"], "datamatrix": ["C02", "C10"], "aztec": ["C03", "C13"], "pdf417": ["C04", "C10"], "code128": ["C05", "C10", "C14"], "code39": ["C07", "C10"],
       "code93": ["C07", "C10"], "codabar": ["C08", "C10"], "ean": ["C06", "C10"], "twooffive": ["C08", "C10"], "utils-bits": ["C18", "C11", "C14"], "utils-gf": ["C17", "C16"], "root-scale": ["C09", "C11"], "code39-93": ["C07", "C10"], "codabar-2of5": ["C08", "C10"]}
def one(path):
    pkg = path.split("/")[3]
    name = "%s-%s-%s" % (pkg, os.environ.get("ROUND", "r4"), os.path.basename(path))
    notes = open(os.path.join(path, "notes.md")).read()
    m = re.search(r"C\d\d", notes[:200])
    prop = m.group(0) if m else DEF[pkg][0]
    base = list(DEF.get(pkg, []))
    if not base:
        # themed rounds: derive the checks from the packages the patch touches
        TOUCH = {"qr/": ["C01", "C12", "C13"], "datamatrix/": ["C02", "C12", "C13"], "aztec/": ["C03", "C12", "C13"], "pdf417/": ["C04", "C12", "C13"], "code128/": ["C05", "C14"],
                 "code39/": ["C07", "C14"], "code93/": ["C07"], "codabar/": ["C08"], "twooffive/": ["C08"], "ean/": ["C06", "C14"], "utils/bitlist": ["C18", "C01", "C03"],
                 "utils/galois": ["C17", "C01", "C02", "C03"], "utils/gfpoly": ["C17", "C01", "C02", "C03"], "utils/reedsolomon": ["C17", "C01", "C02", "C03"],
                 "utils/base1dcode": ["C05", "C06", "C07", "C08", "C09", "C14"], "utils/runeint": ["C05", "C06", "C08"], "scaledbarcode": ["C09", "C14"], "barcode.go": ["C09"]}
        for line in open(os.path.join(path, "patch.diff")):
            if line.startswith("+++ b/"):
                for k, v in TOUCH.items():
                    if line[6:].startswith(k):
                        base += [p for p in v if p not in base]
        base += [p for p in ("C10", "C11", "C15", "C16") if p not in base]
    props = [prop] + [p for p in base if p != prop]
    if "C11" in notes[:400] and "C11" not in props:
        props.append("C11")
    r = subprocess.run(["/verif/tools/evalmutant.sh", path, "quick"] + props, capture_output=True, text=True, errors="replace")
    out = r.stdout
    ok = "demo-clean: PASS" in out and "demo-mutant: FAIL" in out and "suite: PASS" in out
    checks = {}
    for mm in re.finditer(r"check (C\d+) (\w+): exit=(\d+) keys: (.*)", out):
        checks[mm.group(1)] = dict(tier=mm.group(2), exit=int(mm.group(3)), violation_keys=mm.group(4).split())
    if ok:
        d = "/verif/seeded/" + name
        os.makedirs(d, exist_ok=True)
        for f in ("patch.diff", "demo_test.go", "notes.md"):
            shutil.copy(os.path.join(path, f), os.path.join(d, f))
        race = "-race " if re.search(r"-race", notes) else ""
        meta = {"id": name, "property_broken": prop, "area": pkg,
                "source": "independent sub-agent given the 18 property statements and a scratch worktree of /repo, asked for changes in one package",
                "needs_to_manifest": " ".join(l.strip("-# ").strip() for l in notes.split("\n") if l.strip())[:900],
                "confirmed": {"patch_applies_and_builds": True, "existing_suite_passes_with_patch": True, "demo_passes_on_unchanged_tree": True, "demo_fails_with_patch": True,
                              "commands": ["git -C /repo worktree add --detach /tmp/mw/<scratch> HEAD", "go test %s-tags zzdemo -count=1 ./zzdemo/   # passes" % race,
                                           "git apply patch.diff && go build ./... && go test %s-tags zzdemo -count=1 ./zzdemo/   # fails" % race,
                                           "go test -vet=off -count=1 ./...   # 56 tests pass", "VERIF_REPO=/tmp/mw/<scratch> ./check <Cxx> quick", "git -C /repo worktree remove --force /tmp/mw/<scratch>"]},
                "caught_by": {p: c for p, c in checks.items() if c["exit"] == 1}, "not_caught_by": [p for p, c in checks.items() if c["exit"] != 1]}
        json.dump(meta, open(os.path.join(d, "meta.json"), "w"), indent=1)
    return name, ok, checks, out
paths = sorted(glob.glob(os.environ.get("WT", "/tmp/wt4") + "/*/mutants/m*"))
with cf.ThreadPoolExecutor(max_workers=int(os.environ.get("WORKERS", "3"))) as ex:
    for name, ok, checks, out in ex.map(one, paths):
        caught = [p for p, c in checks.items() if c["exit"] == 1]
        print("%-22s confirmed=%s caught_by=%s missed=%s" % (name, ok, caught, [p for p in checks if p not in caught]), flush=True)
        if not ok:
            print(out)
