#!/bin/bash
# Cross-validation of the reference QR reader (harness/refdec/qr.go) against an
# INDEPENDENT encoder: the JavaScript QRCode generator vendored with npm's
# qrcode-terminal (a port of K. Arase's qrcode.js, unrelated to the library under test).
# One byte-mode symbol per (version, level) = 160 symbols.  Expected: 159 decode to
# their text with the right version/level; 15-H fails because that JS library's RS
# block table is wrong for 15-H (it drops the second block group) — a known defect of
# the third party, see DESIGN §2.2.  Not a registered check; development-time evidence
# that the oracle does not merely mirror the library under test.
set -e
export GOFLAGS=-mod=mod GOPROXY=off GOSUMDB=off GOTOOLCHAIN=local
T=$(mktemp -d); trap 'rm -rf $T' EXIT
node "$(dirname "$0")/crosscheck_qr_gen.js" > $T/matrices.json
cd "$(dirname "$0")/../harness"
CROSSQR=$T/matrices.json go test -count=1 -run TestCrossQR -v ./refdec/ 2>&1 | tee $T/out.txt | grep -E "independent encoder|version 15 level H|FAIL|ok" || true
python3 - "$T/out.txt" <<'PY'
import sys,re,json
s=open(sys.argv[1]).read()
m=re.search(r"independent encoder: (\d+) symbols decoded to their text, (\d+) failed, masks seen (\d+)",s)
fails=re.findall(r"go:\d+: version (\d+) level (\w) ",s)
res={"decoded":int(m.group(1)),"failed":int(m.group(2)),"masks_seen":int(m.group(3)),"failures":sorted(set(fails)),"expected_failures":[["15","H"]],
     "encoder":"npm qrcode-terminal vendor/QRCode (JavaScript)","note":"15-H fails because of the third party's wrong RS block table for 15-H"}
json.dump(res,open("/verif/selftest/crosscheck-qr.json","w"),indent=1)
print(res)
sys.exit(0 if [list(f) for f in res["failures"]]==res["expected_failures"] or res["failed"]==0 else 1)
PY
