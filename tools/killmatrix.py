#!/usr/bin/env python3
"""Kill matrix (./check selftest is this script): a catalogue of realistic single-edit
mutants of boombuler/barcode.  Each is applied to a scratch worktree of /repo HEAD
outside /repo and /verif, the library's own suite is run (a mutant the suite notices
is marked), and the named checks are run against the scratch copy.  A mutant that
survives its checks means the monitor lacks observability.

usage: tools/killmatrix.py [quick|thorough] [name-substring…]
"""
import json, os, subprocess, sys, hashlib, shutil, concurrent.futures as cf

ENV = dict(os.environ, GOFLAGS="-mod=mod", GOPROXY="off", GOSUMDB="off", GOTOOLCHAIN="local")

M = []
def mut(name, file, old, new, props, count=1):
    M.append(dict(name=name, file=file, old=old, new=new, props=props, count=count))

# ---------------------------------------------------------------- QR
mut("qr-blocktable-row-30Q", "qr/versioninfo.go", "&versionInfo{30, Q, 30, 15, 24, 25, 25},", "&versionInfo{30, Q, 30, 16, 24, 24, 25},", ["C01", "C12"])
mut("qr-blocktable-ecc-31M", "qr/versioninfo.go", "&versionInfo{31, M, 28, 2, 46, 29, 47},", "&versionInfo{31, M, 26, 2, 48, 29, 49},", ["C01", "C12"])
mut("qr-mask5-predicate", "qr/encoder.go", "val = val != (((y*x)%2)+((y*x)%3) == 0)", "val = val != (((y*x)%2)+((y+x)%3) == 0)", ["C01"])
mut("qr-format-second-copy-bit6", "qr/encoder.go", "set(8, dim-7, formatInfo[6])", "set(8, dim-7, formatInfo[7])", ["C01"])
mut("qr-charcount-boundary-10", "qr/versioninfo.go", """	case byteMode:
		if vi.Version < 10 {""", """	case byteMode:
		if vi.Version <= 10 {""", ["C01", "C13"])
mut("qr-charcount-boundary-27", "qr/versioninfo.go", """		} else if vi.Version < 27 {
			return 12
		}
		return 14""", """		} else if vi.Version <= 27 {
			return 12
		}
		return 14""", ["C01", "C13"])
mut("qr-terminator-omitted", "qr/encoder.go", "for i := 0; i < 4 && bl.Len() < vi.totalDataBytes()*8; i++ {", "for i := 0; i < 3 && bl.Len() < vi.totalDataBytes()*8; i++ {", ["C01"])
mut("qr-pad-bytes-swapped", "qr/encoder.go", """		if i%2 == 0 {
			bl.AddByte(236)""", """		if i%2 == 1 {
			bl.AddByte(236)""", ["C01"])
mut("qr-alignment-from-first", "qr/versioninfo.go", "result[i] = last - (step * (count - 1 - i))", "result[i] = first + (step * i)", ["C01"])
mut("qr-alignment-round-equiv", "qr/versioninfo.go", "if x >= 0.5 {", "if x > 0.5 {", [], )  # equivalent: no version hits exactly .5
mut("qr-capacity-offbyone", "qr/versioninfo.go", "if (vi.totalDataBytes() * 8) >= (dataBits + int(vi.charCountBits(mode))) {", "if (vi.totalDataBytes() * 8) > (dataBits + int(vi.charCountBits(mode))) {", ["C13"])
mut("qr-auto-prefers-alnum", "qr/automatic.go", "bits, vi, _ := Numeric.getEncoder()(content, ecl)", "bits, vi, _ := AlphaNumeric.getEncoder()(content, ecl)", ["C13"])
mut("qr-versioninfo-bit-v22", "qr/encoder.go", "22: []bool{false, true, false, true, true, false, true, false, false, false, true, true, false, false, true, false, false, true},", "22: []bool{false, true, false, true, true, false, true, false, false, false, true, true, false, false, true, false, true, true},", ["C01"])
mut("qr-numeric-2digit-bits", "qr/numeric.go", """		case 2:
			bitCnt = 7
			break""", """		case 2:
			bitCnt = 8
			break""", ["C01"])
mut("qr-alnum-odd-len-bytes-vs-runes", "qr/alphanumeric.go", "res.AddBits(c1*45+c2, 11)", "res.AddBits(c2*45+c1, 11)", ["C01"])
mut("qr-interleave-short-blocks-last", "qr/blocks.go", "if len(bl[b].data) > i {", "if len(bl[b].data) >= i+1 && !(i == maxCodewordCount-1 && b == len(bl)-1 && len(bl) > 40) {", ["C01"])
mut("qr-format-level-swap-QH-mask7", "qr/encoder.go", "7: []bool{false, true, false, true, false, true, true, true, true, true, false, true, true, false, true},", "7: []bool{false, false, false, true, false, false, false, false, false, true, true, true, false, true, true},", ["C01", "C12"])

# ---------------------------------------------------------------- DataMatrix
mut("dm-corner1-bits-swapped", "datamatrix/codelayout.go", "\tl.Set(2, l.size.MatrixColumns()-1, value, 6)\n\tl.Set(3, l.size.MatrixColumns()-1, value, 7)\n}\n\nfunc (l *codeLayout) Corner2", "\tl.Set(2, l.size.MatrixColumns()-1, value, 7)\n\tl.Set(3, l.size.MatrixColumns()-1, value, 6)\n}\n\nfunc (l *codeLayout) Corner2", ["C02"])
mut("dm-corner2-position", "datamatrix/codelayout.go", "\tl.Set(0, l.size.MatrixColumns()-4, value, 3)\n\tl.Set(0, l.size.MatrixColumns()-3, value, 4)", "\tl.Set(0, l.size.MatrixColumns()-3, value, 3)\n\tl.Set(0, l.size.MatrixColumns()-4, value, 4)", ["C02"])
mut("dm-pad-constant", "datamatrix/encoder.go", "R := ((149 * (len(data) + 1)) % 253) + 1", "R := ((149 * (len(data) + 1)) % 254) + 1", ["C02"])
mut("dm-pad-wrap", "datamatrix/encoder.go", "if tmp > 254 {", "if tmp > 255 {", ["C02"])
mut("dm-144-blocks", "datamatrix/codesize.go", "if idx < 8 {", "if idx < 7 {", ["C02", "C10"])
mut("dm-size-table-ecc-88", "datamatrix/codesize.go", "&dmCodeSize{88, 88, 4, 4, 224, 4},", "&dmCodeSize{88, 88, 4, 4, 224, 2},", ["C02"])
mut("dm-capacity-offbyone", "datamatrix/encoder.go", "if s.DataCodewords() >= len(data) {", "if s.DataCodewords() > len(data) {", ["C13", "C10"])
mut("dm-upper-shift-value", "datamatrix/encoder.go", "result = append(result, 235, c-127)", "result = append(result, 235, c-128)", ["C02"])
mut("dm-digit-pair-boundary", "datamatrix/encoder.go", "if c >= '0' && c <= '9' && i < len(input) && input[i] >= '0' && input[i] <= '9' {", "if c >= '0' && c <= '9' && i < len(input) && input[i] >= '0' && input[i] < '9' {", ["C13", "C02"])
mut("dm-clock-track-right", "datamatrix/codelayout.go", "for r := 1; r < l.size.Rows; r += 2 {", "for r := 3; r < l.size.Rows; r += 2 {", ["C02"])
mut("dm-ecc-stride", "datamatrix/errorcorrection.go", "for i := block; i < size.ErrorCorrectionCodewordsPerBlock()*size.BlockCount; i += size.BlockCount {", "for i := (block + 1) % size.BlockCount; i < size.ErrorCorrectionCodewordsPerBlock()*size.BlockCount; i += size.BlockCount {", ["C02"])

# ---------------------------------------------------------------- Aztec
mut("aztec-latch-digit-to-lower", "aztec/state.go", "mode_lower: (9 << 16) + (14 << 5) + 28,", "mode_lower: (9 << 16) + (14 << 5) + 29,", ["C03"])
mut("aztec-bshift-threshold-62", "aztec/token.go", "if i == 0 || (i == 31 && bst.bShiftByteCnt <= 62) {", "if i == 0 || (i == 31 && bst.bShiftByteCnt <= 61) {", ["C03"])
mut("aztec-bshift-63", "aztec/token.go", "if bst.bShiftByteCnt > 62 {", "if bst.bShiftByteCnt > 63 {", ["C03"])
mut("aztec-stuffing-mask", "aztec/encoder.go", "} else if (word & mask) == 0 {", "} else if (word&mask) == 0 && wordSize != 10 {", ["C03"])
mut("aztec-compact-boundary", "aztec/encoder.go", "compact = i <= 3", "compact = i <= 2", ["C03", "C13"])
mut("aztec-percent-ignored-explicit", "aztec/encoder.go", "if stuffedBits.Len()+eccBits > usableBitsInLayers {", "if stuffedBits.Len()+11 > usableBitsInLayers {", ["C12", "C10"])
mut("aztec-mixed-table-entry", "aztec/state.go", "11, 12, 13, 27, 28, 29, 30, 31, '@', '\\\\', '^',", "11, 12, 13, 27, 28, 29, 30, 31, '@', '^', '\\\\',", ["C03"])
mut("aztec-wordsize-table-22", "aztec/encoder.go", "4, 6, 6, 8, 8, 8, 8, 8, 8, 10, 10, 10, 10, 10, 10, 10, 10, 10, 10, 10, 10, 10, 10,", "4, 6, 6, 8, 8, 8, 8, 8, 8, 10, 10, 10, 10, 10, 10, 10, 10, 10, 10, 10, 10, 10, 12,", ["C03"])
mut("aztec-refgrid-parity", "aztec/encoder.go", "for k := (matrixSize / 2) & 1; k < matrixSize; k += 2 {", "for k := 1 - (matrixSize/2)&1; k < matrixSize; k += 2 {", ["C03"])
mut("aztec-compact-64-words", "aztec/encoder.go", "if compact && stuffedBits.Len() > wordSize*64 {\n\t\t\t\t// Compact", "if compact && stuffedBits.Len() > wordSize*65 {\n\t\t\t\t// Compact", ["C03"])
mut("aztec-layers-explicit-ignored-when-small", "aztec/encoder.go", "if userSpecifiedLayers != DEFAULT_LAYERS {", "if userSpecifiedLayers != DEFAULT_LAYERS && userSpecifiedLayers != 2 {", ["C03"])
mut("aztec-gf-poly-10bit", "aztec/errorcorrection.go", "return utils.NewGaloisField(0x409, 1024, 1)", "return utils.NewGaloisField(0x409, 1024, 0)", ["C03"])
mut("aztec-pair-code-colon", "aztec/highlevel.go", "case cur == ':' && nextChar == ' ':\n\t\t\tpairCode = 5", "case cur == ':' && nextChar == ' ':\n\t\t\tpairCode = 4", ["C03"])

# ---------------------------------------------------------------- PDF417
mut("pdf-right-indicator", "pdf417/encoder.go", """	case 1:
		x = (rows - 1) / 3
	case 2:
		x = int(securityLevel) * 3""", """	case 1:
		x = (rows - 2) / 3
	case 2:
		x = int(securityLevel) * 3""", ["C04"])
mut("pdf-count-mod-6", "pdf417/highlevel.go", "} else if (count % 6) == 0 {", "} else if (count % 6) == 0 && count != 12 {", ["C04"])
mut("pdf-numeric-group-45", "pdf417/highlevel.go", "chunkCount := digitCount / 44\n\tif digitCount%44 != 0 {", "chunkCount := digitCount / 45\n\tif digitCount%45 != 0 {", ["C04"])
mut("pdf-pattern-swapped", "pdf417/codewords.go", "0x1d5c0, 0x1eaf0,", "0x1eaf0, 0x1d5c0,", ["C04"])
mut("pdf-submode-latch-code", "pdf417/highlevel.go", "tmp = append(tmp, 25) //punctuation latch", "tmp = append(tmp, 29) //punctuation latch", ["C04"])
mut("pdf-lower-as-shift", "pdf417/highlevel.go", "tmp = append(tmp, 27) //upper switch", "tmp = append(tmp, 28) //upper switch", ["C04"])
mut("pdf-rs-factor", "pdf417/errorcorrection.go", "361, 575, 922, 525, 176,", "361, 575, 922, 526, 176,", ["C04", "C12"])
mut("pdf-level-indicator", "pdf417/encoder.go", """		x = int(securityLevel) * 3
		x += (rows - 1) % 3
	case 2:
		x = columns - 1""", """		x = int(securityLevel) * 3
		x += (rows - 1) % 3
		if securityLevel == 7 {
			x -= 3
		}
	case 2:
		x = columns - 1""", ["C04", "C12"])
mut("pdf-padding-full-row", "pdf417/encoder.go", "if mod > 0 {\n\t\tpadCount := columns - mod", "if mod >= 0 {\n\t\tpadCount := columns - mod", ["C13", "C04"])
mut("pdf-two-bytes-stay-text", "pdf417/highlevel.go", "if len(bytes) != 1 || encodingMode != encText {", "if len(bytes) > 2 || encodingMode != encText {", ["C04"])
mut("pdf-mixed-table-entry", "pdf417/highlevel.go", "35, 45, 46, 36, 47, 43, 37, 42, 61, 94, 0, 32, 0, 0, 0,", "35, 45, 46, 36, 47, 43, 37, 61, 42, 94, 0, 32, 0, 0, 0,", ["C04"])
mut("pdf-sixpack-shift", "pdf417/highlevel.go", "for (count - idx) >= 6 {", "for (count - idx) > 6 {", ["C04"])

# ---------------------------------------------------------------- Code 128
mut("c128-fnc2-in-B", "code128/encode.go", "\t\t\tcase FNC2:\n\t\t\t\tidx = 97\n\t\t\t\tbreak\n\t\t\tcase FNC3:\n\t\t\t\tidx = 96\n\t\t\t\tbreak\n\t\t\tcase FNC4:\n\t\t\t\tidx = 100", "\t\t\tcase FNC2:\n\t\t\t\tidx = 98\n\t\t\t\tbreak\n\t\t\tcase FNC3:\n\t\t\t\tidx = 96\n\t\t\t\tbreak\n\t\t\tcase FNC4:\n\t\t\t\tidx = 100", ["C05"])
mut("c128-fnc4-in-A", "code128/encode.go", "idx = 101\n\t\t\t\tbreak\n\t\t\tdefault:\n\t\t\t\tidx = strings.IndexRune(aTable, content[i])", "idx = 100\n\t\t\t\tbreak\n\t\t\tdefault:\n\t\t\t\tidx = strings.IndexRune(aTable, content[i])", ["C05"])
mut("c128-checksum-weight", "code128/encode.go", "sum += i * int(idx)", "sum += (i % 64) * int(idx)", ["C05", "C14"])
mut("c128-pattern-entry-93", "code128/encodingtable.go", None, None, ["C05"])  # filled below
mut("c128-length-81", "code128/encode.go", "if len(contentRunes) <= 0 || len(contentRunes) > 80 {\n\t\treturn nil, fmt.Errorf(\"content length should be between 1 and 80 runes but got %d\", len(contentRunes))\n\t}\n\tidxList := getCodeIndexList(contentRunes)\n\n\tif idxList == nil {\n\t\treturn nil, fmt.Errorf(\"\\\"%s\\\" could not be encoded\", content)\n\t}\n\n\tresult := new(utils.BitList)\n\tsum := 0", "if len(contentRunes) <= 0 || len(contentRunes) > 81 {\n\t\treturn nil, fmt.Errorf(\"content length should be between 1 and 80 runes but got %d\", len(contentRunes))\n\t}\n\tidxList := getCodeIndexList(contentRunes)\n\n\tif idxList == nil {\n\t\treturn nil, fmt.Errorf(\"\\\"%s\\\" could not be encoded\", content)\n\t}\n\n\tresult := new(utils.BitList)\n\tsum := 0", ["C10"])
mut("c128-fnc1-odd-offset", "code128/encode.go", "if i%2 == 0 && nextRunes[i] == FNC1 {", "if nextRunes[i] == FNC1 {", ["C05"])

# ---------------------------------------------------------------- EAN
mut("ean-G-row-7", "ean/encoder.go", "[]bool{false, false, true, false, false, false, true},\n\t\t[]bool{true, false, false, false, true, false, false},", "[]bool{false, false, true, false, false, true, false},\n\t\t[]bool{true, false, false, false, true, false, false},", ["C06"])
mut("ean-parity-word-9", "ean/encoder.go", "[]bool{false, true, true, false, true, false},\n\t},\n}", "[]bool{false, true, true, true, false, false},\n\t},\n}", ["C06"])
mut("ean-checksum-accepts-any-13", "ean/encoder.go", "if check != code {", "if check != code && len(code) != 13 {", ["C06", "C10"])

# ---------------------------------------------------------------- Code 39 / 93
mut("c39-extended-entry", "code39/encoder.go", "64: `%V`,", "64: `%W`,", ["C07"])
mut("c93-weight-wrap", "code93/encoder.go", "data += string(getChecksum(data, 20))", "data += string(getChecksum(data, 21))", ["C07"])
mut("c93-extended-entry", "code93/encoder.go", "\"\\u00f2W\", \"\\u00f4A\",", "\"\\u00f2V\", \"\\u00f4A\",", ["C07"])
mut("c39-checksum-mod", "code39/encoder.go", "sum = sum % 43", "sum = sum % 42", ["C07", "C14"])

# ---------------------------------------------------------------- Codabar / 2of5
mut("codabar-pattern-dot", "codabar/encoder.go", "'.': []bool{true, true, false, true, true, false, true, true, false, true},", "'.': []bool{true, true, false, true, false, true, true, true, false, true},", ["C08"])
mut("2of5-digit-7", "twooffive/encoder.go", "'7': pattern{false, false, false, true, true},", "'7': pattern{false, false, true, false, true},", ["C08"])
mut("2of5-addchecksum-parity", "twooffive/encoder.go", "even := len(content)%2 == 1", "even := len(content)%2 == 0", ["C08"])

# ---------------------------------------------------------------- Scale / base1D
mut("scale-ge-to-gt", "scaledbarcode.go", "if x >= orgWidth || y >= orgHeight {", "if x > orgWidth || y >= orgHeight {", ["C09"])
mut("scale-offset-no-half", "scaledbarcode.go", "offsetY := (height - (orgHeight * factor)) / 2", "offsetY := (height - (orgHeight * factor))", ["C09"])
mut("scale-default-fill", "scaledbarcode.go", "fill = v.ColorScheme().Background", "fill = v.ColorScheme().Foreground", ["C09"])
mut("scale-1d-factor-round", "scaledbarcode.go", "factor := int(float64(width) / float64(orgWidth))", "factor := int(float64(width)/float64(orgWidth) + 0.01)", ["C09"])
mut("scale-checksum-lost-on-chain", "scaledbarcode.go", "if _, ok := wrapped.(BarcodeIntCS); ok {", "if _, ok := wrapped.(*intCSscaledBC); !ok {\n\t\tif _, ok := wrapped.(BarcodeIntCS); ok {\n\t\t\treturn &intCSscaledBC{*result}\n\t\t}\n\t}\n\tif false {", ["C09", "C14"])
mut("base1d-colors-swapped-custom", "utils/base1dcode.go", "if c.GetBit(x) {\n\t\treturn c.color.Foreground\n\t}\n\treturn c.color.Background", "if c.GetBit(x) != (c.color.Model != barcode.ColorScheme16.Model && c.color.Model != barcode.ColorScheme8.Model && false) {\n\t\treturn c.color.Foreground\n\t}\n\tif c.color.Model == barcode.ColorScheme24.Model {\n\t\treturn barcode.ColorScheme24.Background\n\t}\n\treturn c.color.Background", ["C11"])
mut("qr-colorscheme-dropped", "qr/encoder.go", "results[i] = newBarCodeWithColor(dim, color)", "results[i] = newBarcode(dim)", ["C11"])
mut("pdf-metadata-dims", "pdf417/pdfcode.go", "return barcode.Metadata{barcode.TypePDF, 2}", "return barcode.Metadata{barcode.TypePDF, 1}", ["C11", "C09"])

# ---------------------------------------------------------------- RS / GF / BitList / goroutines
mut("rs-lock-removed", "utils/reedsolomon.go", "\trs.m.Lock()\n\tdefer rs.m.Unlock()\n", "", ["C16"])
mut("rs-double-checked-locking", "utils/reedsolomon.go", "\tverifPolyWait(rs)\n\trs.m.Lock()", "\tif degree < len(rs.polynomes) {\n\t\treturn rs.polynomes[degree]\n\t}\n\tverifPolyWait(rs)\n\trs.m.Lock()", ["C16"])
mut("rs-root-offset", "utils/reedsolomon.go", "rs.gf.ALogTbl[(d-1+rs.gf.Base)%(rs.gf.Size-1)]", "rs.gf.ALogTbl[(d+rs.gf.Base)%(rs.gf.Size-1)]", ["C17", "C01", "C02"])
mut("rs-cache-truncated-on-smaller", "utils/reedsolomon.go", "\treturn rs.polynomes[degree]\n}", "\tres := rs.polynomes[degree]\n\tif degree > 40 && degree < len(rs.polynomes)-1 {\n\t\trs.polynomes = rs.polynomes[:degree+1]\n\t\trs.polynomes[degree] = NewGFPoly(rs.gf, append([]int{}, res.Coefficients[:len(res.Coefficients)-1]...)).MultByMonominal(1, 1)\n\t}\n\treturn res\n}", ["C17", "C15"])
mut("gf-divide-sign", "utils/galoisfield.go", "(gf.LogTbl[a]-gf.LogTbl[b]+(gf.Size-1))%(gf.Size-1)", "(gf.LogTbl[b]-gf.LogTbl[a]+(gf.Size-1))%(gf.Size-1)", ["C17"])
mut("gfpoly-add-equal-degree", "utils/gfpoly.go", "if len(smallCoeff) > len(largeCoeff) {", "if len(smallCoeff) >= len(largeCoeff) && len(smallCoeff) > 37 {", ["C17"])
mut("bitlist-grow-no-copy-1024", "utils/bitlist.go", "\tnd := make([]int32, len(bl.data)+growBy)\n\tcopy(nd, bl.data)", "\tnd := make([]int32, len(bl.data)+growBy)\n\tif growBy == 1024 && len(bl.data) > 4096 {\n\t\tcopy(nd[1:], bl.data[1:])\n\t} else {\n\t\tcopy(nd, bl.data)\n\t}", ["C18"])
mut("bitlist-iterate-drops-partial", "utils/bitlist.go", "\t\tfor c > 0 {\n\t\t\tres <- byte", "\t\tfor c > 4 {\n\t\t\tres <- byte", ["C18"])
mut("bitlist-setbit-clear", "utils/bitlist.go", "bl.data[itmIndex] = bl.data[itmIndex] & ^(1 << uint(itmBitShift))", "if itmBitShift != 0 {\n\t\t\tbl.data[itmIndex] = bl.data[itmIndex] & ^(1 << uint(itmBitShift))\n\t\t}", ["C18"])
mut("qr-producer-not-terminated", "qr/alphanumeric.go", "\t\t\tif idx < 0 {\n\t\t\t\tbreak\n\t\t\t}\n", "", ["C16", "C10"])
mut("qr-package-level-scratch", "qr/blocks.go", "\tresult := make([]byte, 0, resultLen)", "\tif cap(interleaveScratch) < int(resultLen) {\n\t\tinterleaveScratch = make([]byte, 0, int(resultLen))\n\t}\n\tresult := interleaveScratch[:0]", ["C16"])
mut("aztec-content-alias", "aztec/encoder.go", "code.content = append([]byte(nil), data...)", "code.content = data", ["C15"])
mut("c39-checksum-map-order", "code39/encoder.go", "if v.value == sum {", "if v.value == sum || (sum == 0 && v.value == -1) {", ["C07", "C15"])

def fixups():
    # code128 table entry 93: swap two adjacent modules of one rarely used pattern
    p = "/repo/code128/encodingtable.go"
    lines = open(p).read().split("\n")
    rows = [i for i, l in enumerate(lines) if l.strip().startswith("[]bool{")]
    tgt = lines[rows[93]]
    new = tgt.replace("true, false, false", "false, true, false", 1) if "true, false, false" in tgt else tgt.replace("false, true, true", "true, false, true", 1)
    for m in M:
        if m["name"] == "c128-pattern-entry-93":
            m["old"], m["new"] = tgt, new
    # package-level scratch needs a declaration
    for m in M:
        if m["name"] == "qr-package-level-scratch":
            m["extra"] = ("qr/blocks.go", "type blockList []*block\n", "type blockList []*block\n\nvar interleaveScratch []byte\n")

def run(cmd, cwd=None, env=ENV, timeout=3600):
    return subprocess.run(cmd, cwd=cwd, env=env, shell=isinstance(cmd, str), capture_output=True, text=True, errors="replace", timeout=timeout)

def evaluate(m, tier):
    h = hashlib.md5(m["name"].encode()).hexdigest()[:10]
    w = "/tmp/mw/km-" + h
    ev = "/tmp/mw/kmev-" + h
    shutil.rmtree(w, ignore_errors=True)
    os.makedirs("/tmp/mw", exist_ok=True)
    run(["git", "-C", "/repo", "worktree", "prune"])
    r = run(["git", "-C", "/repo", "worktree", "add", "-q", "--detach", w, "HEAD"])
    res = dict(name=m["name"], props=m["props"], suite=None, caught={}, note="")
    try:
        def patch(f, old, new, count=1):
            p = os.path.join(w, f)
            s = open(p).read()
            if s.count(old) != count:
                raise RuntimeError("pattern occurs %d times in %s" % (s.count(old), f))
            open(p, "w").write(s.replace(old, new))
        patch(m["file"], m["old"], m["new"], m.get("count", 1))
        if "extra" in m:
            patch(*m["extra"])
        b = run("go build ./...", cwd=w)
        if b.returncode != 0:
            res["note"] = "does not build: " + b.stderr[-300:]
            return res
        t = run("go test -vet=off -count=1 ./...", cwd=w)
        res["suite"] = "pass" if t.returncode == 0 else "FAIL"
        for p in m["props"]:
            env = dict(ENV, VERIF_REPO=w, VERIF_EVIDENCE_DIR=ev)
            c = run(["/verif/check", p, tier], cwd="/verif", env=env)
            keys = [l.split("key=")[1].split(" count=")[0] for l in c.stdout.split("\n") if l.startswith("# violations key=")]
            res["caught"][p] = dict(exit=c.returncode, keys=keys[:6])
    except Exception as e:
        res["note"] = "error: %s" % e
    finally:
        run(["git", "-C", "/repo", "worktree", "remove", "--force", w])
        shutil.rmtree(w, ignore_errors=True)
        shutil.rmtree(ev, ignore_errors=True)
        mfn = hashlib.md5((w + "\n").encode()).hexdigest()[:12]
        shutil.rmtree("/verif/.work/modfiles/" + mfn, ignore_errors=True)
    return res

def main():
    tier = "quick"
    args = sys.argv[1:]
    if args and args[0] in ("quick", "thorough"):
        tier = args.pop(0)
    fixups()
    sel = [m for m in M if m["props"] and (not args or any(a in m["name"] for a in args))]
    out = []
    with cf.ThreadPoolExecutor(max_workers=3) as ex:
        for r in ex.map(lambda m: evaluate(m, tier), sel):
            killed = [p for p, c in r["caught"].items() if c["exit"] == 1]
            status = "KILLED" if killed else ("SURVIVED" if r["caught"] else "N/A")
            print("%-42s suite=%-4s %-8s %s %s" % (r["name"], r["suite"], status, " ".join("%s:%d" % (p, c["exit"]) for p, c in r["caught"].items()), r["note"]), flush=True)
            out.append(r)
    os.makedirs("/verif/selftest", exist_ok=True)
    if not args:
        json.dump(out, open("/verif/selftest/killmatrix-%s.json" % tier, "w"), indent=1)
    surv = [r["name"] for r in out if r["caught"] and not any(c["exit"] == 1 for c in r["caught"].values())]
    print("mutants: %d, killed: %d, survived: %s" % (len(out), len(out) - len(surv), surv))

main()
