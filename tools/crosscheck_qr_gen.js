const base = '/usr/lib/node_modules/npm/node_modules/qrcode-terminal/vendor/QRCode';
const QRCode = require(base);
const ECL = require(base + '/QRErrorCorrectLevel');
function rnd(seed) { let s = seed; return () => (s = (s * 1103515245 + 12345) & 0x7fffffff) / 0x7fffffff; }
const r = rnd(42);
const out = [];
const levels = { L: ECL.L, M: ECL.M, Q: ECL.Q, H: ECL.H };
for (let ver = 1; ver <= 40; ver++) {
  for (const ln of Object.keys(levels)) {
    // byte capacity table unknown here: try decreasing lengths until it fits
    let len = Math.max(1, Math.floor((ver * ver * 16 + ver * 128 + 64) / 8 * ({ L: 0.75, M: 0.6, Q: 0.42, H: 0.32 })[ln]) - 10 - Math.floor(r() * 8));
    for (let tries = 0; tries < 40; tries++) {
      let txt = '';
      for (let i = 0; i < len; i++) txt += String.fromCharCode(32 + Math.floor(r() * 95));
      try {
        const q = new QRCode(ver, levels[ln]);
        q.addData(txt);
        q.make();
        const n = q.getModuleCount();
        let rows = [];
        for (let y = 0; y < n; y++) { let s = ''; for (let x = 0; x < n; x++) s += q.isDark(y, x) ? '1' : '0'; rows.push(s); }
        out.push({ ver, level: ln, text: txt, n, rows });
        break;
      } catch (e) { len = Math.floor(len * 0.9) - 1; if (len < 1) break; }
    }
  }
}
console.log(JSON.stringify(out));
