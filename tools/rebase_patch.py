#!/usr/bin/env python3
"""tools/rebase_patch.py <mutant-dir> [old-base-commit]
Re-create <mutant-dir>/patch.diff against /repo's HEAD when a later `fix:` commit
touched the same file (scaledbarcode.go so far): the patch is applied to the old base,
the fix's own line replacements are repeated on the result where its old lines
survive, and the difference to HEAD becomes the new patch.  The old patch is kept as
patch.orig.diff."""
import os, subprocess, sys, shutil
d = os.path.abspath(sys.argv[1]); base = sys.argv[2] if len(sys.argv) > 2 else "e02f414"
W = "/tmp/mw/rebase"
subprocess.run(["git", "-C", "/repo", "worktree", "remove", "--force", W], capture_output=True)
subprocess.check_call(["git", "-C", "/repo", "worktree", "add", "-q", "--detach", W, base])
try:
    subprocess.check_call(["git", "-C", W, "apply", os.path.join(d, "patch.diff")])
    changed = subprocess.check_output(["git", "-C", W, "diff", "--name-only"], text=True).split()
    files = {f: open(os.path.join(W, f)).read() for f in changed}
    subprocess.check_call(["git", "-C", W, "checkout", "-q", "--detach", "HEAD@{0}"], stderr=subprocess.DEVNULL) if False else None
    subprocess.check_call(["git", "-C", W, "reset", "-q", "--hard"])
    subprocess.check_call(["git", "-C", W, "checkout", "-q", "--detach", subprocess.check_output(["git", "-C", "/repo", "rev-parse", "HEAD"], text=True).strip()])
    for f, s in files.items():
        if f == "scaledbarcode.go":
            s = s.replace("\tfactor := int(math.Min(float64(width)/float64(orgWidth), float64(height)/float64(orgHeight)))\n",
                          "\tfactor := width / orgWidth\n\tif fy := height / orgHeight; fy < factor {\n\t\tfactor = fy\n\t}\n")
            s = s.replace("\tfactor := int(float64(width) / float64(orgWidth))\n", "\tfactor := width / orgWidth\n")
            if "math." not in s:
                s = s.replace('\t"math"\n', "")
        open(os.path.join(W, f), "w").write(s)
    subprocess.check_call(["gofmt", "-l", "."], cwd=W, stdout=subprocess.DEVNULL)
    new = subprocess.check_output(["git", "-C", W, "diff"], text=True)
    assert new.strip(), "empty diff"
    if not os.path.exists(os.path.join(d, "patch.orig.diff")):
        shutil.copy(os.path.join(d, "patch.diff"), os.path.join(d, "patch.orig.diff"))
    open(os.path.join(d, "patch.diff"), "w").write(new)
    print("rebased", d)
finally:
    subprocess.run(["git", "-C", "/repo", "worktree", "remove", "--force", W], capture_output=True)
