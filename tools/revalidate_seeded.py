#!/usr/bin/env python3
"""tools/revalidate_seeded.py [pattern]: re-confirm every kept seeded change against /repo's current HEAD
and the current checks: the patch applies and builds, the 56 tests pass with it, the demonstration passes
without and fails with it, and at least one of the checks recorded in meta.json (caught_by) still reports it.
Prints one line per change and a summary; writes selftest/seeded-revalidation.json."""
import json, os, re, subprocess, glob, sys, concurrent.futures as cf
pat = sys.argv[1] if len(sys.argv) > 1 else "*"
def one(d):
    meta = json.load(open(os.path.join(d, "meta.json")))
    props = list(meta.get("caught_by", {}).keys())[:2] or [meta.get("property_broken", "C10")]
    r = subprocess.run(["/verif/tools/evalmutant.sh", d, "quick"] + props, capture_output=True, text=True, errors="replace")
    out = r.stdout
    ok = "demo-clean: PASS" in out and "demo-mutant: FAIL" in out and "suite: PASS" in out
    caught = [m.group(1) for m in re.finditer(r"check (C\d+) \w+: exit=1", out)]
    return os.path.basename(d), ok, caught, props, out
dirs = sorted(glob.glob("/verif/seeded/" + pat + "/"))
dirs = [d.rstrip("/") for d in dirs if os.path.exists(os.path.join(d, "meta.json"))]
res = {}
bad = 0
with cf.ThreadPoolExecutor(max_workers=int(os.environ.get("JOBS", "4"))) as ex:
    for name, ok, caught, props, out in ex.map(one, dirs):
        expected_uncaught = name == "utils-gf-r5-m4"
        good = ok and (bool(caught) or expected_uncaught)
        res[name] = dict(confirmed=ok, checks_run=props, caught_by=caught)
        print("%-24s confirmed=%s caught_by=%s%s" % (name, ok, caught, "" if good else "   <<<<<< ATTENTION"), flush=True)
        if not good:
            bad += 1
            print(out, flush=True)
json.dump(dict(total=len(res), needing_attention=bad, results=res), open("/verif/selftest/seeded-revalidation.json", "w"), indent=1)
print("TOTAL %d, needing attention %d" % (len(res), bad))
